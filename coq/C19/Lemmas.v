(** C19 - proofs. *)
From Coq Require Import ZArith List Bool Reals QArith Qreals Lra Lia Psatz Nsatz.
From Interval Require Import Tactic.
From HV Require Import Common.Generic C19.Model.
Import ListNotations.
Local Open Scope R_scope.

Ltac tup tac := repeat match goal with |- (_, _) = (_, _) => apply f_equal2 end; tac.
Ltac ro := cbn [add mul sub opp zero one inv ofZ RO].
Ltac dv v := let a := fresh v "x" in let b := fresh v "y" in let c := fresh v "z" in destruct v as [[a b] c].

Notation vecr := (vec R). Notation matr := (mat R).

(** * 1. rotation matrix *)
Lemma rotM_zyz ca sa cb sb cg sg :
  rotM RO ca sa cb sb cg sg = mmul RO (Rz RO cg sg) (mmul RO (Ry RO cb sb) (Rz RO ca sa)).
Proof. unfold rotM, mmul, mcol, Rz, Ry, dot; ro. tup ltac:(ring). Qed.

Lemma rotM_orth_r ca sa cb sb cg sg :
  ca*ca + sa*sa = 1 -> cb*cb + sb*sb = 1 -> cg*cg + sg*sg = 1 ->
  mmul RO (rotM RO ca sa cb sb cg sg) (mcol (rotM RO ca sa cb sb cg sg)) = mid RO.
Proof. intros Ha Hb Hg. unfold rotM, mmul, mcol, mid, dot; ro. tup ltac:(nsatz). Qed.

Lemma rotM_orth_l ca sa cb sb cg sg :
  ca*ca + sa*sa = 1 -> cb*cb + sb*sb = 1 -> cg*cg + sg*sg = 1 ->
  mmul RO (mcol (rotM RO ca sa cb sb cg sg)) (rotM RO ca sa cb sb cg sg) = mid RO.
Proof. intros Ha Hb Hg. unfold rotM, mmul, mcol, mid, dot; ro. tup ltac:(nsatz). Qed.

Lemma rotM_det ca sa cb sb cg sg :
  ca*ca + sa*sa = 1 -> cb*cb + sb*sb = 1 -> cg*cg + sg*sg = 1 ->
  det RO (rotM RO ca sa cb sb cg sg) = 1.
Proof. intros Ha Hb Hg. unfold rotM, det; ro. nsatz. Qed.

Lemma cs1 a : cos a * cos a + sin a * sin a = 1.
Proof. pose proof (sin2_cos2 a) as H. unfold Rsqr in H. lra. Qed.

Definition orthogonal (m : matr) : Prop := mmul RO (mcol m) m = mid RO.

Lemma rotation_matrix_orthogonal a b g rad : orthogonal (rotation_matrix a b g rad).
Proof. unfold orthogonal, rotation_matrix. apply rotM_orth_l; apply cs1. Qed.

Lemma rotation_matrix_zyz_rad a b g :
  rotation_matrix a b g true =
  mmul RO (Rz RO (cos g) (sin g)) (mmul RO (Ry RO (cos b) (sin b)) (Rz RO (cos a) (sin a))).
Proof. unfold rotation_matrix, to_radians. apply rotM_zyz. Qed.

Lemma rotation_matrix_degrees a b g :
  rotation_matrix a b g false = rotation_matrix (a * (PI/180)) (b * (PI/180)) (g * (PI/180)) true.
Proof. reflexivity. Qed.

(** linearity and isometry of the matrix-vector product *)
Lemma mvec_sub (m : matr) p q : mvec RO m (vsub RO p q) = vsub RO (mvec RO m p) (mvec RO m q).
Proof. destruct m as [[r1 r2] r3]. dv r1. dv r2. dv r3. dv p. dv q.
  unfold mvec, vsub, dot; ro. tup ltac:(ring). Qed.
Lemma mvec_add (m : matr) p q : mvec RO m (vadd RO p q) = vadd RO (mvec RO m p) (mvec RO m q).
Proof. destruct m as [[r1 r2] r3]. dv r1. dv r2. dv r3. dv p. dv q.
  unfold mvec, vadd, dot; ro. tup ltac:(ring). Qed.
Lemma mvec_zero (m : matr) : mvec RO m (vzero RO) = vzero RO.
Proof. destruct m as [[r1 r2] r3]. dv r1. dv r2. dv r3. unfold mvec, vzero, dot; ro. tup ltac:(ring). Qed.

Lemma orth_norm (m : matr) v : orthogonal m -> dot RO (mvec RO m v) (mvec RO m v) = dot RO v v.
Proof. destruct m as [[r1 r2] r3]. dv r1. dv r2. dv r3. dv v.
  unfold orthogonal, mmul, mcol, mid, mvec, dot; ro. intros H.
  inversion H as [[H1 H2 H3 H4 H5 H6 H7 H8 H9]]. clear H. nsatz. Qed.

Lemma orth_isometry (m : matr) p q : orthogonal m ->
  dist2 RO (mvec RO m p) (mvec RO m q) = dist2 RO p q.
Proof. intros H. unfold dist2. rewrite <- mvec_sub. apply orth_norm, H. Qed.

(** * 2. composites *)
Fixpoint vsumr (l : list vecr) : vecr := match l with [] => vzero RO | c :: t => vadd RO c (vsumr t) end.
Lemma vadd_comm (a b : vecr) : vadd RO a b = vadd RO b a.
Proof. dv a. dv b. unfold vadd; ro. tup ltac:(ring). Qed.
Lemma vadd_assoc (a b c : vecr) : vadd RO (vadd RO a b) c = vadd RO a (vadd RO b c).
Proof. dv a. dv b. dv c. unfold vadd; ro. tup ltac:(ring). Qed.
Lemma vadd_0_l (a : vecr) : vadd RO (vzero RO) a = a.
Proof. dv a. unfold vadd, vzero; ro. tup ltac:(ring). Qed.
Lemma vadd_0_r (a : vecr) : vadd RO a (vzero RO) = a.
Proof. dv a. unfold vadd, vzero; ro. tup ltac:(ring). Qed.
Lemma vsub_diag (a : vecr) : vsub RO a a = vzero RO.
Proof. dv a. unfold vsub, vzero; ro. tup ltac:(ring). Qed.
Lemma fold_vadd l : forall a, fold_left (vadd RO) l a = vadd RO a (vsumr l).
Proof. induction l as [|c t IH]; intros a; simpl.
  - dv a. unfold vadd, vzero; ro. tup ltac:(ring).
  - rewrite IH. apply vadd_assoc. Qed.
Lemma vsum_vsumr l : vsum RO l = vsumr l.
Proof. unfold vsum. rewrite fold_vadd. apply vadd_0_l. Qed.

Definition nlen {A} (l : list A) : R := IZR (Z.of_nat (length l)).
Lemma nlen_cons {A} (x : A) l : nlen (x :: l) = nlen l + 1.
Proof. unfold nlen. simpl length. rewrite Nat2Z.inj_succ, succ_IZR. reflexivity. Qed.
Lemma nlen_pos {A} (l : list A) : l <> [] -> 0 < nlen l.
Proof. destruct l as [|x t]; [congruence|]. intros _. rewrite nlen_cons. unfold nlen.
  pose proof (IZR_le 0 (Z.of_nat (length t)) ltac:(lia)). lra. Qed.
Lemma nlen_map {A B} (f : A -> B) l : nlen (map f l) = nlen l.
Proof. unfold nlen. rewrite map_length. reflexivity. Qed.

Definition vscale (k : R) (v : vecr) : vecr := let '(a,b,c) := v in (k*a, k*b, k*c).

(** sum of the images under  c |-> a + M (c - b) *)
Lemma vsumr_affine (m : matr) a b l :
  vsumr (map (fun c => vadd RO a (mvec RO m (vsub RO c b))) l)
  = vadd RO (vscale (nlen l) a) (mvec RO m (vsub RO (vsumr l) (vscale (nlen l) b))).
Proof. induction l as [|c t IH].
  - simpl. unfold nlen; simpl. destruct m as [[r1 r2] r3]. dv r1. dv r2. dv r3. dv a. dv b.
    unfold vscale, vsub, vadd, mvec, vzero, dot; ro. tup ltac:(ring).
  - cbn [map vsumr]. rewrite IH, nlen_cons. set (n := nlen t). set (s := vsumr t).
    destruct m as [[r1 r2] r3]. dv r1. dv r2. dv r3. dv a. dv b. dv c. dv s.
    unfold vscale, vsub, vadd, mvec, dot; ro. tup ltac:(ring). Qed.

Lemma vmean_scale l : l <> [] -> vscale (nlen l) (vmean RO l) = vsumr l.
Proof. intros H. pose proof (nlen_pos l H) as Hn. unfold vmean. rewrite vsum_vsumr.
  ro. fold (nlen l). set (s := vsumr l). dv s. unfold vscale, vdivs; ro. tup ltac:(field; lra). Qed.

Definition about (m : matr) (com c : vecr) : vecr := vadd RO com (mvec RO m (vsub RO c com)).

Lemma combine_map_r {A B} (f : A -> B) l : combine l (map f l) = map (fun x => (x, f x)) l.
Proof. induction l as [|x t IH]; simpl; [reflexivity|]. rewrite IH. reflexivity. Qed.

Lemma vadd_sub_cancel (c n : vecr) : vadd RO c (vsub RO n c) = n.
Proof. dv c. dv n. unfold vadd, vsub; ro. tup ltac:(ring). Qed.

Lemma rotated_flat_about m cs : rotated_flat RO m cs = map (about m (vmean RO cs)) cs.
Proof. unfold rotated_flat, new_centers. rewrite combine_map_r, map_map. apply map_ext.
  intros c. cbn [fst snd]. unfold about. apply vadd_sub_cancel. Qed.

Lemma dist2_add_l (c a b : vecr) : dist2 RO (vadd RO c a) (vadd RO c b) = dist2 RO a b.
Proof. dv c. dv a. dv b. unfold dist2, vadd, vsub, dot; ro. ring. Qed.
Lemma dist2_sub_r (c a b : vecr) : dist2 RO (vsub RO a c) (vsub RO b c) = dist2 RO a b.
Proof. dv c. dv a. dv b. unfold dist2, vsub, dot; ro. ring. Qed.
Lemma about_isometry m com p q : orthogonal m -> dist2 RO (about m com p) (about m com q) = dist2 RO p q.
Proof. intros H. unfold about. rewrite dist2_add_l, (orth_isometry m _ _ H). apply dist2_sub_r. Qed.

Lemma about_fixes_com m com : about m com com = com.
Proof. unfold about. rewrite vsub_diag, mvec_zero. apply vadd_0_r. Qed.

Lemma vmean_about m cs : cs <> [] -> vmean RO (map (about m (vmean RO cs)) cs) = vmean RO cs.
Proof. intros H.
  assert (E : vsumr (map (about m (vmean RO cs)) cs) = vsumr cs).
  { unfold about. rewrite vsumr_affine, (vmean_scale cs H), vsub_diag, mvec_zero. apply vadd_0_r. }
  unfold vmean at 1. rewrite vsum_vsumr, E, map_length. unfold vmean. rewrite vsum_vsumr. reflexivity. Qed.

Lemma translated_flat_map t cs : translated_flat RO t cs = map (fun c => vadd RO c t) cs.
Proof. reflexivity. Qed.
Lemma translate_isometry t p q : dist2 RO (vadd RO p t) (vadd RO q t) = dist2 RO p q.
Proof. dv t. dv p. dv q. unfold dist2, vadd, vsub, dot; ro. ring. Qed.
Lemma vsumr_shift t l : vsumr (map (fun c => vadd RO c t) l) = vadd RO (vsumr l) (vscale (nlen l) t).
Proof. induction l as [|c r IH].
  - simpl. unfold nlen; simpl. dv t. unfold vscale, vadd, vzero; ro. tup ltac:(ring).
  - cbn [map vsumr]. rewrite IH, nlen_cons. set (s := vsumr r). set (n := nlen r).
    dv s. dv t. dv c. unfold vscale, vadd; ro. tup ltac:(ring). Qed.
Lemma vmean_translated t cs : cs <> [] ->
  vmean RO (translated_flat RO t cs) = vadd RO (vmean RO cs) t.
Proof. intros H. pose proof (nlen_pos cs H) as Hn. unfold translated_flat, vmean.
  rewrite !vsum_vsumr, vsumr_shift, map_length. ro. fold (nlen cs).
  set (s := vsumr cs). dv s. dv t. unfold vscale, vadd, vdivs; ro. tup ltac:(field; lra). Qed.

(** the whole composite statement, flat composites of any size *)
Lemma composite_rotation_rigid (m : matr) cs : orthogonal m -> cs <> [] ->
  let com := vmean RO cs in
  rotated_flat RO m cs = map (about m com) cs /\
  (forall p q, dist2 RO (about m com p) (about m com q) = dist2 RO p q) /\
  vmean RO (rotated_flat RO m cs) = com /\
  length (rotated_flat RO m cs) = length cs.
Proof. intros Ho Hne com. split; [apply rotated_flat_about|]. split; [intros; apply about_isometry, Ho|].
  split; [rewrite rotated_flat_about; apply vmean_about, Hne|].
  rewrite rotated_flat_about, map_length. reflexivity. Qed.

Lemma composite_translation_rigid t cs : cs <> [] ->
  translated_flat RO t cs = map (fun c => vadd RO c t) cs /\
  (forall p q, dist2 RO (vadd RO p t) (vadd RO q t) = dist2 RO p q) /\
  vmean RO (translated_flat RO t cs) = vadd RO (vmean RO cs) t.
Proof. intros H. split; [reflexivity|]. split; [intros; apply translate_isometry|apply vmean_translated, H]. Qed.

Lemma rigid_cluster_rigid (m : matr) t cs : orthogonal m -> cs <> [] ->
  let com := vmean RO cs in
  let f := fun c => vadd RO (about m com c) t in
  rigid_cluster RO m t cs = map f cs /\
  (forall p q, dist2 RO (f p) (f q) = dist2 RO p q) /\
  vmean RO (rigid_cluster RO m t cs) = vadd RO com t.
Proof. intros Ho Hne com f. unfold rigid_cluster. split; [|split].
  - rewrite rotated_flat_about, translated_flat_map, map_map. reflexivity.
  - intros p q. unfold f. rewrite translate_isometry. apply about_isometry, Ho.
  - rewrite vmean_translated.
    + f_equal. rewrite rotated_flat_about. apply vmean_about, Hne.
    + rewrite rotated_flat_about. destruct cs; [congruence|simpl; congruence]. Qed.

(** pairwise distances between members, by index *)
Lemma map_pairwise (f : vecr -> vecr) (cs : list vecr) (i j : nat) (d : vecr) :
  (forall p q, dist2 RO (f p) (f q) = dist2 RO p q) ->
  (i < length cs)%nat -> (j < length cs)%nat ->
  dist2 RO (List.nth i (map f cs) d) (List.nth j (map f cs) d) = dist2 RO (List.nth i cs d) (List.nth j cs d).
Proof. intros H Hi Hj. rewrite (@nth_indep _ (map f cs) i d (f d)) by (rewrite map_length; exact Hi).
  rewrite (@nth_indep _ (map f cs) j d (f d)) by (rewrite map_length; exact Hj).
  rewrite !map_nth. apply H. Qed.

(** * 3. atan2 *)
Lemma atan2_xpos y x : 0 < x -> atan2 y x = atan (y / x).
Proof. intros H. unfold atan2. destruct (Rlt_dec 0 x); [reflexivity|lra]. Qed.
Lemma atan2_xneg_ynn y x : x < 0 -> 0 <= y -> atan2 y x = atan (y / x) + PI.
Proof. intros H1 H2. unfold atan2. destruct (Rlt_dec 0 x); [lra|]. destruct (Rlt_dec x 0); [|lra].
  destruct (Rle_dec 0 y); [reflexivity|lra]. Qed.
Lemma atan2_xneg_yneg y x : x < 0 -> y < 0 -> atan2 y x = atan (y / x) - PI.
Proof. intros H1 H2. unfold atan2. destruct (Rlt_dec 0 x); [lra|]. destruct (Rlt_dec x 0); [|lra].
  destruct (Rle_dec 0 y); [lra|reflexivity]. Qed.
Lemma atan2_x0_ypos y x : x = 0 -> 0 < y -> atan2 y x = PI / 2.
Proof. intros H1 H2. unfold atan2. destruct (Rlt_dec 0 x); [lra|]. destruct (Rlt_dec x 0); [lra|].
  destruct (Rlt_dec 0 y); [reflexivity|lra]. Qed.
Lemma atan2_x0_yneg y x : x = 0 -> y < 0 -> atan2 y x = - (PI / 2).
Proof. intros H1 H2. unfold atan2. destruct (Rlt_dec 0 x); [lra|]. destruct (Rlt_dec x 0); [lra|].
  destruct (Rlt_dec 0 y); [lra|]. destruct (Rlt_dec y 0); [reflexivity|lra]. Qed.
Lemma atan2_x0_y0 y x : x = 0 -> y = 0 -> atan2 y x = 0.
Proof. intros H1 H2. unfold atan2. destruct (Rlt_dec 0 x); [lra|]. destruct (Rlt_dec x 0); [lra|].
  destruct (Rlt_dec 0 y); [lra|]. destruct (Rlt_dec y 0); [lra|reflexivity]. Qed.
Lemma atan2_y0_xpos y x : y = 0 -> 0 < x -> atan2 y x = 0.
Proof. intros H1 H2. rewrite atan2_xpos by exact H2. subst y. unfold Rdiv. rewrite Rmult_0_l. apply atan_0. Qed.
Lemma atan2_y0_xneg y x : y = 0 -> x < 0 -> atan2 y x = PI.
Proof. intros H1 H2. rewrite atan2_xneg_ynn by lra. subst y. unfold Rdiv. rewrite Rmult_0_l, atan_0. lra. Qed.

Lemma atan_nonneg t : 0 <= t -> 0 <= atan t.
Proof. intros [H|H]; [left; rewrite <- atan_0; apply atan_increasing, H|subst; rewrite atan_0; lra]. Qed.
Lemma atan_nonpos t : t <= 0 -> atan t <= 0.
Proof. intros [H|H]; [left; rewrite <- atan_0; apply atan_increasing, H|subst; rewrite atan_0; lra]. Qed.
Lemma atan_pos t : 0 < t -> 0 < atan t.
Proof. intros H. rewrite <- atan_0. apply atan_increasing, H. Qed.

Lemma div_sign_nn_neg y x : x < 0 -> 0 <= y -> y / x <= 0.
Proof. intros Hx Hy. unfold Rdiv. assert (/ x < 0) by (apply Rinv_lt_0_compat, Hx). nra. Qed.
Lemma div_sign_neg_neg y x : x < 0 -> y < 0 -> 0 < y / x.
Proof. intros Hx Hy. unfold Rdiv. assert (/ x < 0) by (apply Rinv_lt_0_compat, Hx). nra. Qed.
Lemma div_sign_nn_pos y x : 0 < x -> 0 <= y -> 0 <= y / x.
Proof. intros Hx Hy. unfold Rdiv. assert (0 < / x) by (apply Rinv_0_lt_compat, Hx). nra. Qed.

Lemma atan2_range y x : - PI < atan2 y x <= PI.
Proof. pose proof PI_RGT_0 as Hpi. destruct (Rtotal_order 0 x) as [Hx|[Hx|Hx]].
  - rewrite atan2_xpos by exact Hx. pose proof (atan_bound (y / x)). lra.
  - destruct (Rtotal_order 0 y) as [Hy|[Hy|Hy]].
    + rewrite atan2_x0_ypos by lra. lra.
    + rewrite atan2_x0_y0 by lra. lra.
    + rewrite atan2_x0_yneg by lra. lra.
  - destruct (Rle_dec 0 y) as [Hy|Hy].
    + rewrite atan2_xneg_ynn by lra. pose proof (atan_bound (y / x)).
      pose proof (atan_nonpos _ (div_sign_nn_neg y x Hx Hy)). lra.
    + rewrite atan2_xneg_yneg by lra. pose proof (atan_bound (y / x)).
      pose proof (atan_pos _ (div_sign_neg_neg y x Hx ltac:(lra))). lra. Qed.

Lemma atan2_polar_range y x : 0 <= y -> 0 <= atan2 y x <= PI.
Proof. intros Hy. pose proof PI_RGT_0 as Hpi. destruct (Rtotal_order 0 x) as [Hx|[Hx|Hx]].
  - rewrite atan2_xpos by exact Hx. pose proof (atan_bound (y / x)).
    pose proof (atan_nonneg _ (div_sign_nn_pos y x Hx Hy)). lra.
  - destruct Hy as [Hy|Hy].
    + rewrite atan2_x0_ypos by lra. lra.
    + rewrite atan2_x0_y0 by lra. lra.
  - rewrite atan2_xneg_ynn by lra. pose proof (atan_bound (y / x)).
    pose proof (atan_nonpos _ (div_sign_nn_neg y x Hx Hy)). lra. Qed.

(** sqrt(x^2+y^2) factorisation *)
Lemma hyp_factor x y : x <> 0 -> sqrt (x*x + y*y) = Rabs x * sqrt (1 + (y / x)²).
Proof. intros Hx. replace (x*x + y*y) with (x² * (1 + (y / x)²)) by (unfold Rsqr; field; exact Hx).
  rewrite sqrt_mult; [rewrite sqrt_Rsqr_abs; reflexivity|apply Rle_0_sqr|].
  pose proof (Rle_0_sqr (y / x)). lra. Qed.
Lemma sqrt1p_pos t : 0 < sqrt (1 + t²).
Proof. apply sqrt_lt_R0. pose proof (Rle_0_sqr t). lra. Qed.
Lemma sqrt_sq_abs y : sqrt (y * y) = Rabs y.
Proof. apply sqrt_Rsqr_abs. Qed.

Lemma cos_minus_PI a : cos (a - PI) = - cos a.
Proof. rewrite cos_minus, cos_PI, sin_PI. ring. Qed.
Lemma sin_minus_PI a : sin (a - PI) = - sin a.
Proof. rewrite sin_minus, cos_PI, sin_PI. ring. Qed.

(** the defining property of arctan2: (x, y) = rho (cos, sin)(arctan2 y x), everywhere *)
Lemma polar_cos x y : sqrt (x*x + y*y) * cos (atan2 y x) = x.
Proof. destruct (Rtotal_order 0 x) as [Hx|[Hx|Hx]].
  - rewrite atan2_xpos by exact Hx. rewrite hyp_factor by lra. rewrite cos_atan, Rabs_pos_eq by lra.
    pose proof (sqrt1p_pos (y / x)). field. lra.
  - subst x. replace (0*0 + y*y) with (y*y) by ring.
    destruct (Rtotal_order 0 y) as [Hy|[Hy|Hy]].
    + rewrite atan2_x0_ypos by lra. rewrite cos_PI2. ring.
    + subst y. rewrite Rmult_0_l, sqrt_0. ring.
    + rewrite atan2_x0_yneg by lra. rewrite cos_neg, cos_PI2. ring.
  - rewrite hyp_factor by lra. rewrite Rabs_left by lra. pose proof (sqrt1p_pos (y / x)).
    destruct (Rle_dec 0 y) as [Hy|Hy].
    + rewrite atan2_xneg_ynn by lra. rewrite neg_cos, cos_atan. field. lra.
    + rewrite atan2_xneg_yneg by lra. rewrite cos_minus_PI, cos_atan. field. lra. Qed.

Lemma polar_sin x y : sqrt (x*x + y*y) * sin (atan2 y x) = y.
Proof. destruct (Rtotal_order 0 x) as [Hx|[Hx|Hx]].
  - rewrite atan2_xpos by exact Hx. rewrite hyp_factor by lra. rewrite sin_atan, Rabs_pos_eq by lra.
    pose proof (sqrt1p_pos (y / x)). field. lra.
  - subst x. replace (0*0 + y*y) with (y*y) by ring. rewrite sqrt_sq_abs.
    destruct (Rtotal_order 0 y) as [Hy|[Hy|Hy]].
    + rewrite atan2_x0_ypos by lra. rewrite sin_PI2, Rabs_pos_eq by lra. ring.
    + subst y. rewrite Rabs_R0. ring.
    + rewrite atan2_x0_yneg by lra. rewrite sin_neg, sin_PI2, Rabs_left by lra. ring.
  - rewrite hyp_factor by lra. rewrite Rabs_left by lra. pose proof (sqrt1p_pos (y / x)).
    destruct (Rle_dec 0 y) as [Hy|Hy].
    + rewrite atan2_xneg_ynn by lra. rewrite neg_sin, sin_atan. field. lra.
    + rewrite atan2_xneg_yneg by lra. rewrite sin_minus_PI, sin_atan. field. lra. Qed.

(** arctan2 inverts the polar map on (-pi, pi] *)
Lemma atan2_polar r phi : 0 < r -> - PI < phi <= PI -> atan2 (r * sin phi) (r * cos phi) = phi.
Proof. intros Hr [Hlo Hhi]. pose proof PI_RGT_0 as Hpi.
  destruct (Rtotal_order phi (- (PI/2))) as [H1|[H1|H1]].
  - (* (-pi, -pi/2): psi = phi + pi in (0, pi/2) *)
    set (psi := phi + PI). assert (Hpsi : 0 < psi < PI/2) by (unfold psi; lra).
    assert (Hc : 0 < cos psi) by (apply cos_gt_0; lra).
    assert (Hs : 0 < sin psi) by (apply sin_gt_0; lra).
    assert (Ec : cos phi = - cos psi) by (unfold psi; rewrite neg_cos; ring).
    assert (Es : sin phi = - sin psi) by (unfold psi; rewrite neg_sin; ring).
    rewrite atan2_xneg_yneg by (rewrite ?Ec, ?Es; nra).
    replace (r * sin phi / (r * cos phi)) with (tan psi) by (rewrite Ec, Es; unfold tan; field; lra).
    rewrite atan_tan by lra. unfold psi. ring.
  - subst phi. rewrite cos_neg, sin_neg, cos_PI2, sin_PI2. rewrite atan2_x0_yneg by lra. reflexivity.
  - destruct (Rtotal_order phi (PI/2)) as [H2|[H2|H2]].
    + assert (Hc : 0 < cos phi) by (apply cos_gt_0; lra).
      rewrite atan2_xpos by nra.
      replace (r * sin phi / (r * cos phi)) with (tan phi) by (unfold tan; field; lra).
      apply atan_tan. lra.
    + subst phi. rewrite cos_PI2, sin_PI2. rewrite atan2_x0_ypos by lra. reflexivity.
    + set (psi := phi - PI). assert (Hpsi : - (PI/2) < psi <= 0) by (unfold psi; lra).
      assert (Hc : 0 < cos psi) by (apply cos_gt_0; lra).
      assert (Hs : sin psi <= 0).
      { destruct Hpsi as [Hl [Hn|Hz]]; [left; apply sin_lt_0_var; lra|rewrite Hz, sin_0; lra]. }
      assert (Ec : cos phi = - cos psi) by (unfold psi; rewrite cos_minus_PI; ring).
      assert (Es : sin phi = - sin psi) by (unfold psi; rewrite sin_minus_PI; ring).
      rewrite atan2_xneg_ynn by (rewrite ?Ec, ?Es; nra).
      replace (r * sin phi / (r * cos phi)) with (tan psi) by (rewrite Ec, Es; unfold tan; field; lra).
      rewrite atan_tan by lra. unfold psi. ring. Qed.

(** * 4. a % (2 pi) *)
Lemma twopi_pos : 0 < 2 * PI. Proof. pose proof PI_RGT_0. lra. Qed.

Lemma mod2pi_range a : 0 <= mod2pi a < 2 * PI.
Proof. unfold mod2pi. pose proof twopi_pos as Hp. set (q := a / (2 * PI)).
  destruct (base_Int_part q) as [H1 H2]. assert (Ea : a = q * (2 * PI)) by (unfold q; field; lra).
  set (k := IZR (Int_part q)) in *. clearbody k. clearbody q. subst a. split; nra. Qed.

Lemma mod2pi_unique a (k : Z) : 0 <= a - IZR k * (2 * PI) < 2 * PI -> mod2pi a = a - IZR k * (2 * PI).
Proof. intros Hk. pose proof (mod2pi_range a) as Hm. unfold mod2pi in *. pose proof twopi_pos as Hp.
  set (k0 := Int_part (a / (2 * PI))) in *.
  assert (E : (k0 - k)%Z = 0%Z).
  { apply one_IZR_lt1. rewrite minus_IZR. split.
    - apply Rmult_lt_reg_r with (2 * PI); [exact Hp|]. nra.
    - apply Rmult_lt_reg_r with (2 * PI); [exact Hp|]. nra. }
  replace k0 with k by lia. reflexivity. Qed.

Lemma mod2pi_nonneg a : 0 <= a < 2 * PI -> mod2pi a = a.
Proof. intros H. rewrite (mod2pi_unique a 0); lra. Qed.
Lemma mod2pi_neg a : - (2 * PI) <= a < 0 -> mod2pi a = a + 2 * PI.
Proof. intros H. rewrite (mod2pi_unique a (-1)); lra. Qed.

Lemma cos_plus_2PI a : cos (a + 2 * PI) = cos a.
Proof. rewrite cos_plus, cos_2PI, sin_2PI. ring. Qed.
Lemma sin_plus_2PI a : sin (a + 2 * PI) = sin a.
Proof. rewrite sin_plus, cos_2PI, sin_2PI. ring. Qed.

Lemma mod2pi_trig a : - PI < a <= PI -> cos (mod2pi a) = cos a /\ sin (mod2pi a) = sin a.
Proof. intros H. pose proof PI_RGT_0. destruct (Rle_dec 0 a).
  - rewrite mod2pi_nonneg by lra. split; reflexivity.
  - rewrite mod2pi_neg by lra. split; [apply cos_plus_2PI|apply sin_plus_2PI]. Qed.

Lemma polar_cos_mod x y : sqrt (x*x + y*y) * cos (mod2pi (atan2 y x)) = x.
Proof. destruct (mod2pi_trig _ (atan2_range y x)) as [-> _]. apply polar_cos. Qed.
Lemma polar_sin_mod x y : sqrt (x*x + y*y) * sin (mod2pi (atan2 y x)) = y.
Proof. destruct (mod2pi_trig _ (atan2_range y x)) as [_ ->]. apply polar_sin. Qed.

(** azimuth recovered on [0, 2pi) *)
Lemma azimuth_recovered r phi : 0 < r -> 0 <= phi < 2 * PI ->
  mod2pi (atan2 (r * sin phi) (r * cos phi)) = phi.
Proof. intros Hr Hphi. pose proof PI_RGT_0. destruct (Rle_dec phi PI) as [Hle|Hgt].
  - rewrite atan2_polar by lra. apply mod2pi_nonneg. lra.
  - set (psi := phi - 2 * PI).
    assert (Ec : cos phi = cos psi) by (unfold psi; rewrite <- (cos_plus_2PI (phi - 2*PI)); f_equal; ring).
    assert (Es : sin phi = sin psi) by (unfold psi; rewrite <- (sin_plus_2PI (phi - 2*PI)); f_equal; ring).
    rewrite Ec, Es, atan2_polar by (unfold psi; lra). rewrite mod2pi_neg by (unfold psi; lra).
    unfold psi. ring. Qed.

(** * 5. the conversions *)
Lemma sqrt_sq_nonneg r : 0 <= r -> sqrt (r * r) = r.
Proof. intros H. apply sqrt_square, H. Qed.
Lemma sumsq_nonneg x y : 0 <= x*x + y*y. Proof. nra. Qed.
Lemma rho_sq x y : sqrt (x*x + y*y) * sqrt (x*x + y*y) = x*x + y*y.
Proof. apply sqrt_sqrt, sumsq_nonneg. Qed.
Lemma r_as_polar x y z : sqrt (x*x + y*y + z*z) = sqrt (z*z + sqrt (x*x + y*y) * sqrt (x*x + y*y)).
Proof. rewrite rho_sq. f_equal. ring. Qed.

Lemma cart_sph_cart p : sph2cart (cart2sph p) = p.
Proof. destruct p as [[x y] z]. unfold cart2sph, sph2cart. set (rho := sqrt (x*x + y*y)).
  pose proof (polar_sin z rho) as Hs. pose proof (polar_cos z rho) as Hc.
  assert (Er : sqrt (x*x + y*y + z*z) = sqrt (z*z + rho*rho)) by exact (r_as_polar x y z).
  rewrite <- Er in Hs, Hc.
  pose proof (polar_cos_mod x y) as Hx. pose proof (polar_sin_mod x y) as Hy. fold rho in Hx, Hy.
  set (r := sqrt (x*x + y*y + z*z)) in *. set (th := atan2 rho z) in *. set (ph := mod2pi (atan2 y x)) in *.
  tup ltac:(idtac).
  - transitivity ((r * sin th) * cos ph); [ring|]. rewrite Hs. exact Hx.
  - transitivity ((r * sin th) * sin ph); [ring|]. rewrite Hs. exact Hy.
  - exact Hc. Qed.

Lemma sph_cart_sph r th ph : 0 < r -> 0 < th < PI -> 0 <= ph < 2 * PI ->
  cart2sph (sph2cart (r, th, ph)) = (r, th, ph).
Proof. intros Hr Hth Hph. unfold cart2sph, sph2cart.
  assert (Hst : 0 < sin th) by (apply sin_gt_0; lra).
  pose proof (cs1 th) as Ht. pose proof (cs1 ph) as Hp.
  assert (E1 : r * cos ph * sin th * (r * cos ph * sin th) + r * sin ph * sin th * (r * sin ph * sin th)
               = (r * sin th) * (r * sin th)) by nsatz.
  assert (E2 : r * cos ph * sin th * (r * cos ph * sin th) + r * sin ph * sin th * (r * sin ph * sin th)
               + r * cos th * (r * cos th) = r * r) by nsatz.
  rewrite E2, E1, !sqrt_sq_nonneg by nra. tup ltac:(idtac).
  - reflexivity.
  - apply atan2_polar; lra.
  - replace (r * sin ph * sin th) with ((r * sin th) * sin ph) by ring.
    replace (r * cos ph * sin th) with ((r * sin th) * cos ph) by ring.
    apply azimuth_recovered; [nra|exact Hph]. Qed.

Lemma cart_cyl_cart p : cyl2cart (cart2cyl p) = p.
Proof. destruct p as [[x y] z]. unfold cart2cyl, cyl2cart. tup ltac:(idtac).
  - apply polar_cos_mod. - apply polar_sin_mod. - reflexivity. Qed.

Lemma cyl_cart_cyl rho ph z : 0 < rho -> 0 <= ph < 2 * PI ->
  cart2cyl (cyl2cart (rho, ph, z)) = (rho, ph, z).
Proof. intros Hr Hph. unfold cart2cyl, cyl2cart. pose proof (cs1 ph) as Hp.
  assert (E : rho * cos ph * (rho * cos ph) + rho * sin ph * (rho * sin ph) = rho * rho) by nsatz.
  rewrite E, sqrt_sq_nonneg by lra. tup ltac:(idtac).
  - reflexivity. - apply azimuth_recovered; assumption. - reflexivity. Qed.

Lemma cyl_sph_cyl p : sph2cyl (cyl2sph p) = p.
Proof. destruct p as [[rho ph] z]. unfold cyl2sph, sph2cyl.
  pose proof (polar_sin z rho) as Hs. pose proof (polar_cos z rho) as Hc.
  replace (z*z + rho*rho) with (rho*rho + z*z) in Hs, Hc by ring. tup ltac:(idtac).
  - exact Hs. - reflexivity. - exact Hc. Qed.

Lemma sq_sc r a : r * sin a * (r * sin a) + r * cos a * (r * cos a) = r * r.
Proof. pose proof (cs1 a) as H. nsatz. Qed.

Lemma sph_cyl_sph r th ph : 0 < r -> 0 <= th <= PI -> cyl2sph (sph2cyl (r, th, ph)) = (r, th, ph).
Proof. intros Hr Hth. unfold cyl2sph, sph2cyl. pose proof PI_RGT_0.
  assert (E : r * sin th * (r * sin th) + r * cos th * (r * cos th) = r * r) by apply sq_sc.
  rewrite E, sqrt_sq_nonneg by lra. tup ltac:(idtac).
  - reflexivity. - apply atan2_polar; lra. - reflexivity. Qed.

(** composition: going through a third system gives the direct conversion *)
Lemma compose_cart_cyl_sph p : cyl2sph (cart2cyl p) = cart2sph p.
Proof. destruct p as [[x y] z]. unfold cyl2sph, cart2cyl, cart2sph. rewrite rho_sq. reflexivity. Qed.

Lemma compose_cart_sph_cyl p : sph2cyl (cart2sph p) = cart2cyl p.
Proof. rewrite <- compose_cart_cyl_sph. apply cyl_sph_cyl. Qed.

Lemma compose_sph_cyl_cart p : cyl2cart (sph2cyl p) = sph2cart p.
Proof. destruct p as [[r th] ph]. unfold cyl2cart, sph2cyl, sph2cart. tup ltac:(ring). Qed.

Lemma compose_cyl_sph_cart p : sph2cart (cyl2sph p) = cyl2cart p.
Proof. rewrite <- compose_sph_cyl_cart. rewrite cyl_sph_cyl. reflexivity. Qed.

Lemma compose_sph_cart_cyl r th ph : 0 < r -> 0 < th < PI -> 0 <= ph < 2 * PI ->
  cart2cyl (sph2cart (r, th, ph)) = sph2cyl (r, th, ph).
Proof. intros Hr Hth Hph. rewrite <- compose_cart_sph_cyl. rewrite sph_cart_sph by assumption. reflexivity. Qed.

Lemma compose_cyl_cart_sph rho ph z : 0 < rho -> 0 <= ph < 2 * PI ->
  cart2sph (cyl2cart (rho, ph, z)) = cyl2sph (rho, ph, z).
Proof. intros Hr Hph. rewrite <- compose_cart_cyl_sph. rewrite cyl_cart_cyl by assumption. reflexivity. Qed.

(** distance from the origin, in each system *)
Definition dist0 (s : csys) (p : vecR) : R :=
  match s with
  | Cart => let '(x, y, z) := p in sqrt (x*x + y*y + z*z)
  | Sphr => let '(r, _, _) := p in Rabs r
  | Cyl => let '(rho, _, z) := p in sqrt (rho*rho + z*z)
  end.

Lemma radius_preserved a b p : dist0 b (transform a b p) = dist0 a p.
Proof. destruct p as [[u v] w]. destruct a, b; try reflexivity; unfold transform, dist0.
  - (* cart -> sph *) unfold cart2sph. apply Rabs_pos_eq, sqrt_pos.
  - (* cart -> cyl *) unfold cart2cyl. rewrite rho_sq. reflexivity.
  - (* sph -> cart *) unfold sph2cart. pose proof (cs1 v) as Hv. pose proof (cs1 w) as Hw.
    replace (u * cos w * sin v * (u * cos w * sin v) + u * sin w * sin v * (u * sin w * sin v)
             + u * cos v * (u * cos v)) with (u * u) by nsatz. apply sqrt_sq_abs.
  - (* sph -> cyl *) unfold sph2cyl. pose proof (cs1 v) as Hv.
    replace (u * sin v * (u * sin v) + u * cos v * (u * cos v)) with (u * u) by nsatz. apply sqrt_sq_abs.
  - (* cyl -> cart *) unfold cyl2cart. pose proof (cs1 v) as Hv.
    replace (u * cos v * (u * cos v) + u * sin v * (u * sin v) + w * w) with (u * u + w * w) by nsatz.
    reflexivity.
  - (* cyl -> sph *) unfold cyl2sph. apply Rabs_pos_eq, sqrt_pos. Qed.

(** ranges of the returned angles *)
Lemma cart2sph_ranges p : let '(r, th, ph) := cart2sph p in 0 <= r /\ 0 <= th <= PI /\ 0 <= ph < 2 * PI.
Proof. destruct p as [[x y] z]. unfold cart2sph. split; [apply sqrt_pos|]. split.
  - apply atan2_polar_range, sqrt_pos. - apply mod2pi_range. Qed.
Lemma cart2cyl_ranges p : let '(rho, ph, _) := cart2cyl p in 0 <= rho /\ 0 <= ph < 2 * PI.
Proof. destruct p as [[x y] z]. unfold cart2cyl. split; [apply sqrt_pos|apply mod2pi_range]. Qed.
Lemma cyl2sph_ranges rho ph z : 0 <= rho -> let '(r, th, _) := cyl2sph (rho, ph, z) in 0 <= r /\ 0 <= th <= PI.
Proof. intros H. unfold cyl2sph. split; [apply sqrt_pos|apply atan2_polar_range, H]. Qed.

(** find_transformation_function: every ordered pair of the three names is implemented, anything else refused *)
Lemma find_transformation_total a b :
  find_transformation a b <> None <-> (csys_of_name a <> None /\ csys_of_name b <> None).
Proof. unfold find_transformation. destruct (csys_of_name a), (csys_of_name b); split; intros H;
  try (split; congruence); try congruence; try (destruct H; congruence). Qed.

(** * 6. evaluation of the R model inside Coq (used by the generated correspondence files):
    branch selection by the rewriting lemmas above (side conditions by lra / interval),
    then an interval enclosure.  A goal that does not check is a disagreement. *)
Definition comp (k : nat) (v : vecR) : R :=
  match k with 0%nat => fst (fst v) | 1%nat => snd (fst v) | _ => snd v end.

Ltac sidec :=
  solve [ lra | apply sqrt_pos | interval with (i_prec 80)
        | match goal with |- sqrt ?e = 0 => replace e with 0 by lra; apply sqrt_0 end ].
Ltac atan2_branch :=
  first [ rewrite atan2_y0_xpos by sidec | rewrite atan2_y0_xneg by sidec
        | rewrite atan2_x0_y0 by sidec | rewrite atan2_x0_ypos by sidec | rewrite atan2_x0_yneg by sidec
        | rewrite atan2_xpos by sidec | rewrite atan2_xneg_ynn by sidec | rewrite atan2_xneg_yneg by sidec ].
Ltac mod_branch :=
  first [ rewrite mod2pi_nonneg by (split; sidec) | rewrite mod2pi_neg by (split; sidec) ].
Ltac conv_eval :=
  unfold comp, transform, cart2sph, sph2cart, cart2cyl, cyl2cart, cyl2sph, sph2cyl; cbn [fst snd];
  try atan2_branch; try mod_branch; interval with (i_prec 80).
Ltac rot_eval :=
  unfold rotation_matrix, rotM, to_radians, mat_list, vec_list, mvec, dot; ro; cbn [List.nth];
  interval with (i_prec 80).

(** * 7. the Q instance that is executed computes the R instance that is proved about *)
Definition vQ2R (v : vec Q) : vecr := let '(a,b,c) := v in (Q2R a, Q2R b, Q2R c).
Definition mQ2R (m : mat Q) : matr := let '(a,b,c) := m in (vQ2R a, vQ2R b, vQ2R c).
Lemma rotM_Q_R ca sa cb sb cg sg :
  mQ2R (rotM QO ca sa cb sb cg sg) = rotM RO (Q2R ca) (Q2R sa) (Q2R cb) (Q2R sb) (Q2R cg) (Q2R sg).
Proof. unfold rotM, mQ2R, vQ2R. q2r. Qed.
Lemma mvec_Q_R m v : vQ2R (mvec QO m v) = mvec RO (mQ2R m) (vQ2R v).
Proof. destruct m as [[r1 r2] r3]. destruct r1 as [[? ?] ?], r2 as [[? ?] ?], r3 as [[? ?] ?], v as [[? ?] ?].
  unfold mvec, mQ2R, vQ2R, dot. q2r. Qed.
Lemma rotate_points_Q_R m pts : map vQ2R (rotate_points QO m pts) = rotate_points RO (mQ2R m) (map vQ2R pts).
Proof. unfold rotate_points. rewrite !map_map. apply map_ext. intros v. apply mvec_Q_R. Qed.

(** * 8. statements used by Props.v that combine the above *)
Lemma rotation_matrix_orthogonal_r a b g rad :
  mmul RO (rotation_matrix a b g rad) (mcol (rotation_matrix a b g rad)) = mid RO.
Proof. unfold rotation_matrix. apply rotM_orth_r; apply cs1. Qed.

Lemma rotation_matrix_det a b g rad : det RO (rotation_matrix a b g rad) = 1.
Proof. unfold rotation_matrix. apply rotM_det; apply cs1. Qed.

Lemma rotation_matrix_zyz a b g rad :
  let k := fun x => to_radians RO rad (PI / 180) x in
  rotation_matrix a b g rad =
  mmul RO (Rz RO (cos (k g)) (sin (k g))) (mmul RO (Ry RO (cos (k b)) (sin (k b))) (Rz RO (cos (k a)) (sin (k a)))).
Proof. intros k. unfold rotation_matrix. apply rotM_zyz. Qed.

Lemma rotate_points_length (m : matr) pts : length (rotate_points RO m pts) = length pts.
Proof. apply map_length. Qed.

Lemma rotate_points_nth (m : matr) pts i d : (i < length pts)%nat ->
  List.nth i (rotate_points RO m pts) d = mvec RO m (List.nth i pts d).
Proof. intros H. unfold rotate_points. rewrite (@nth_indep _ (map (mvec RO m) pts) i d (mvec RO m d))
    by (rewrite map_length; exact H). apply map_nth. Qed.

Lemma rotate_points_isometry (m : matr) pts i j d : orthogonal m ->
  (i < length pts)%nat -> (j < length pts)%nat ->
  dist2 RO (List.nth i (rotate_points RO m pts) d) (List.nth j (rotate_points RO m pts) d)
  = dist2 RO (List.nth i pts d) (List.nth j pts d).
Proof. intros Ho Hi Hj. unfold rotate_points. apply map_pairwise; [|exact Hi|exact Hj].
  intros p q. apply orth_isometry, Ho. Qed.

Lemma rotate_points_norm (m : matr) pts i d : orthogonal m -> (i < length pts)%nat ->
  dot RO (List.nth i (rotate_points RO m pts) d) (List.nth i (rotate_points RO m pts) d)
  = dot RO (List.nth i pts d) (List.nth i pts d).
Proof. intros Ho Hi. rewrite rotate_points_nth by exact Hi. apply orth_norm, Ho. Qed.

(** composites: pairwise distances between members, by index *)
Lemma rotated_flat_pairwise (m : matr) cs i j d : orthogonal m ->
  (i < length cs)%nat -> (j < length cs)%nat ->
  dist2 RO (List.nth i (rotated_flat RO m cs) d) (List.nth j (rotated_flat RO m cs) d)
  = dist2 RO (List.nth i cs d) (List.nth j cs d).
Proof. intros Ho Hi Hj. rewrite rotated_flat_about. apply map_pairwise; [|exact Hi|exact Hj].
  intros p q. apply about_isometry, Ho. Qed.

Lemma translated_flat_pairwise t cs i j d : (i < length cs)%nat -> (j < length cs)%nat ->
  dist2 RO (List.nth i (translated_flat RO t cs) d) (List.nth j (translated_flat RO t cs) d)
  = dist2 RO (List.nth i cs d) (List.nth j cs d).
Proof. intros Hi Hj. unfold translated_flat. apply map_pairwise; [|exact Hi|exact Hj].
  intros p q. apply translate_isometry. Qed.

Lemma rigid_cluster_pairwise (m : matr) t cs i j d : orthogonal m -> cs <> [] ->
  (i < length cs)%nat -> (j < length cs)%nat ->
  dist2 RO (List.nth i (rigid_cluster RO m t cs) d) (List.nth j (rigid_cluster RO m t cs) d)
  = dist2 RO (List.nth i cs d) (List.nth j cs d).
Proof. intros Ho Hne Hi Hj. destruct (rigid_cluster_rigid m t cs Ho Hne) as [E [Hiso _]].
  rewrite E. apply map_pairwise; [exact Hiso|exact Hi|exact Hj]. Qed.

(** a composite with exactly one member: rotation leaves it where it is *)
Lemma vmean_single (c : vecr) : vmean RO (c :: nil) = c.
Proof. dv c. unfold vmean, vsum, vdivs, vadd, vzero; simpl; ro. tup ltac:(field). Qed.
Lemma rotated_flat_single (m : matr) (c : vecr) : rotated_flat RO m (c :: nil) = c :: nil.
Proof. rewrite rotated_flat_about. simpl. rewrite vmean_single, about_fixes_com. reflexivity. Qed.

(** rotating by the identity matrix (all three angles 0) moves nothing *)
Lemma rotation_matrix_zero rad : rotation_matrix 0 0 0 rad = mid RO.
Proof. unfold rotation_matrix, to_radians, rotM, mid; ro. destruct rad;
  rewrite ?Rmult_0_l, cos_0, sin_0; tup ltac:(ring). Qed.

(** orthogonal in the two-sided sense *)
Lemma orthogonal_rotM ca sa cb sb cg sg :
  ca*ca + sa*sa = 1 -> cb*cb + sb*sb = 1 -> cg*cg + sg*sg = 1 -> orthogonal (rotM RO ca sa cb sb cg sg).
Proof. intros. unfold orthogonal. apply rotM_orth_l; assumption. Qed.


(** * 9. nested composites (a Scatterers holding Spheres ...): every leaf sphere undergoes the
    same map  p |-> com + M (p - com)  about the centre of the top-level composite *)
Notation scatr := (scat R).
Fixpoint wf (s : scatr) : Prop :=
  match s with Leaf _ => True | Node l => l <> nil /\ fold_right and True (map wf l) end.

Fixpoint scat_ind' (P : scatr -> Prop) (HL : forall c, P (Leaf c))
  (HN : forall l, Forall P l -> P (Node l)) (s : scatr) : P s :=
  match s with
  | Leaf c => HL c
  | Node l => HN l ((fix go (l : list scatr) : Forall P l :=
       match l with nil => Forall_nil P | x :: t => Forall_cons x (scat_ind' P HL HN x) (go t) end) l)
  end.

Lemma wf_Forall l : fold_right and True (map wf l) <-> Forall wf l.
Proof. induction l as [|x t IH]; simpl; split; intros H.
  - constructor. - exact I.
  - destruct H as [H1 H2]. constructor; [exact H1|apply IH, H2].
  - inversion H; subst. split; [assumption|apply IH; assumption]. Qed.

Lemma map_ext_Forall {A B} (f g : A -> B) (P : A -> Prop) l :
  Forall P l -> (forall x, P x -> f x = g x) -> map f l = map g l.
Proof. intros H E. induction H as [|x t Hx Ht IH]; simpl; [reflexivity|]. rewrite (E x Hx), IH. reflexivity. Qed.

Lemma Forall_and {A} (P Q : A -> Prop) l : Forall P l -> Forall Q l -> Forall (fun x => P x /\ Q x) l.
Proof. intros HP. induction HP; intros HQ; inversion HQ; subst; constructor; auto. Qed.

Lemma translate_props t (s : scatr) : wf s ->
  center RO (translate RO t s) = vadd RO (center RO s) t /\
  leaves (translate RO t s) = map (fun p => vadd RO p t) (leaves s) /\
  depth (translate RO t s) = depth s /\ wf (translate RO t s).
Proof. induction s as [c|l IH] using scat_ind'; intros Hw.
  - simpl. repeat split; reflexivity.
  - simpl in Hw. destruct Hw as [Hne Hw]. apply wf_Forall in Hw.
    pose proof (Forall_and _ _ _ IH Hw) as H.
    assert (H' : Forall (fun x => center RO (translate RO t x) = vadd RO (center RO x) t /\
       leaves (translate RO t x) = map (fun p => vadd RO p t) (leaves x) /\
       depth (translate RO t x) = depth x /\ wf (translate RO t x)) l).
    { clear -H. induction H as [|x r [Hi Hx] Hr IHr]; constructor; [apply Hi, Hx|exact IHr]. }
    clear H IH. cbn [translate center leaves depth wf]. rewrite !map_map. repeat split.
    + rewrite (map_ext_Forall _ (fun x => vadd RO (center RO x) t) _ l H') by (intros x Hx; apply Hx).
      rewrite <- (map_map (center RO) (fun c => vadd RO c t)). fold (translated_flat RO t (map (center RO) l)).
      apply vmean_translated. destruct l; [congruence|simpl; congruence].
    + clear Hne Hw. induction H' as [|x r Hx Hr IHr]; simpl; [reflexivity|].
      rewrite map_app, <- IHr. destruct Hx as [_ [-> _]]. reflexivity.
    + f_equal. f_equal. apply (map_ext_Forall _ _ _ l H'). intros x Hx. apply Hx.
    + destruct l; [congruence|simpl; congruence].
    + clear Hne Hw. induction H' as [|x r Hx Hr IHr]; simpl; [exact I|split; [apply Hx|exact IHr]]. Qed.

Lemma about_shift (m : matr) com c p :
  about m (about m com c) (vadd RO p (vsub RO (about m com c) c)) = about m com p.
Proof. unfold about. destruct m as [[r1 r2] r3]. dv r1. dv r2. dv r3. dv com. dv c. dv p.
  unfold vadd, vsub, mvec, dot; ro. tup ltac:(ring). Qed.

Lemma depth_member (l : list scatr) x : In x l -> (depth x <= fold_right Nat.max 0%nat (map depth l))%nat.
Proof. induction l as [|y t IH]; simpl; [tauto|]. intros [->|H]; [lia|]. specialize (IH H). lia. Qed.

Lemma flat_map_map {A B C} (f : A -> B) (g : B -> list C) l : flat_map g (map f l) = flat_map (fun x => g (f x)) l.
Proof. induction l; simpl; [reflexivity|]. rewrite IHl. reflexivity. Qed.
Lemma map_flat_map {A B C} (f : B -> C) (g : A -> list B) l : map f (flat_map g l) = flat_map (fun x => map f (g x)) l.
Proof. induction l; simpl; [reflexivity|]. rewrite map_app, IHl. reflexivity. Qed.
Lemma flat_map_ext_in {A B} (f g : A -> list B) l : (forall x, In x l -> f x = g x) -> flat_map f l = flat_map g l.
Proof. induction l as [|x t IH]; simpl; intros H; [reflexivity|]. rewrite (H x) by tauto. rewrite IH; [reflexivity|].
  intros y Hy. apply H. tauto. Qed.

Lemma rotated_fuel_props (m : matr) : forall f (s : scatr), wf s -> (depth s < f)%nat ->
  leaves (rotated_fuel RO f m s) = map (about m (center RO s)) (leaves s) /\
  center RO (rotated_fuel RO f m s) = center RO s.
Proof. induction f as [|f IH]; intros s Hw Hd; [lia|]. destruct s as [c|l].
  - simpl. rewrite about_fixes_com. split; reflexivity.
  - simpl in Hw. destruct Hw as [Hne Hw]. apply wf_Forall in Hw. rewrite Forall_forall in Hw.
    cbn [rotated_fuel]. set (com := vmean RO (map (center RO) l)).
    assert (Hx : forall x, In x l ->
       leaves (rotated_fuel RO f m (translate RO (vsub RO (vadd RO com (mvec RO m (vsub RO (center RO x) com))) (center RO x)) x))
       = map (about m com) (leaves x) /\
       center RO (rotated_fuel RO f m (translate RO (vsub RO (vadd RO com (mvec RO m (vsub RO (center RO x) com))) (center RO x)) x))
       = about m com (center RO x)).
    { intros x Hin. set (t := vsub RO _ (center RO x)).
      destruct (translate_props t x (Hw x Hin)) as [Hc [Hl [Hdp Hwf]]].
      assert (Hdx : (depth (translate RO t x) < f)%nat).
      { rewrite Hdp. pose proof (depth_member l x Hin). simpl in Hd. lia. }
      destruct (IH _ Hwf Hdx) as [E1 E2]. rewrite E1, E2, Hc, Hl. unfold t. fold (about m com (center RO x)).
      rewrite vadd_sub_cancel. split; [|reflexivity]. rewrite map_map. apply map_ext. intros p. apply about_shift. }
    cbn [leaves center]. split.
    + rewrite flat_map_map, map_flat_map. apply flat_map_ext_in. intros x Hin. apply Hx, Hin.
    + rewrite map_map. fold com.
      rewrite (map_ext_in _ (fun x => about m com (center RO x)) l) by (intros x Hin; apply Hx, Hin).
      rewrite <- (map_map (center RO) (about m com)). unfold com. apply vmean_about.
      destruct l; [congruence|simpl; congruence]. Qed.

Lemma rotated_tree_rigid (m : matr) (s : scatr) : wf s ->
  leaves (rotated RO m s) = map (about m (center RO s)) (leaves s) /\
  center RO (rotated RO m s) = center RO s.
Proof. intros Hw. unfold rotated. apply rotated_fuel_props; [exact Hw|lia]. Qed.

Lemma translated_tree_rigid t (s : scatr) : wf s ->
  leaves (translate RO t s) = map (fun p => vadd RO p t) (leaves s) /\
  center RO (translate RO t s) = vadd RO (center RO s) t.
Proof. intros Hw. destruct (translate_props t s Hw) as [H1 [H2 _]]. split; assumption. Qed.

(** C19 property theorems: statements only; proofs are in Lemmas.v.
    Conversions are over R (atan2 by cases on atan, a % 2pi by Int_part); the rotation matrix and
    the composite moves are the R instance of the generic model whose Q instance is executed against
    the implementation (q_instance_is_r_instance). *)
From Coq Require Import ZArith List Bool Reals QArith Qreals Lra.
From Interval Require Import Tactic.
From HV Require Import Common.Generic C19.Model C19.Lemmas.
Import ListNotations.
Local Open Scope R_scope.

(** ** arctan2 and the modulo *)
(* the defining property of arctan2, everywhere (also on the axes and at the origin) *)
Theorem cos_sin_atan2 : forall x y,
  sqrt (x*x + y*y) * cos (atan2 y x) = x /\ sqrt (x*x + y*y) * sin (atan2 y x) = y.
Proof. intros x y. split; [apply polar_cos|apply polar_sin]. Qed.
Print Assumptions cos_sin_atan2.

Theorem atan2_in_range : forall y x, - PI < atan2 y x <= PI.
Proof. exact atan2_range. Qed.
Print Assumptions atan2_in_range.

Theorem atan2_inverts_polar : forall r phi, 0 < r -> - PI < phi <= PI -> atan2 (r * sin phi) (r * cos phi) = phi.
Proof. exact atan2_polar. Qed.
Print Assumptions atan2_inverts_polar.

Theorem mod2pi_in_range : forall a, 0 <= mod2pi a < 2 * PI.
Proof. exact mod2pi_range. Qed.
Print Assumptions mod2pi_in_range.

(** ** round trips *)
Theorem cart_sph_cart_everywhere : forall p, sph2cart (cart2sph p) = p.
Proof. exact cart_sph_cart. Qed.
Print Assumptions cart_sph_cart_everywhere.

Theorem sph_cart_sph_off_singularities : forall r th ph, 0 < r -> 0 < th < PI -> 0 <= ph < 2 * PI ->
  cart2sph (sph2cart (r, th, ph)) = (r, th, ph).
Proof. exact sph_cart_sph. Qed.
Print Assumptions sph_cart_sph_off_singularities.

Theorem cart_cyl_cart_everywhere : forall p, cyl2cart (cart2cyl p) = p.
Proof. exact cart_cyl_cart. Qed.
Print Assumptions cart_cyl_cart_everywhere.

Theorem cyl_cart_cyl_off_axis : forall rho ph z, 0 < rho -> 0 <= ph < 2 * PI ->
  cart2cyl (cyl2cart (rho, ph, z)) = (rho, ph, z).
Proof. exact cyl_cart_cyl. Qed.
Print Assumptions cyl_cart_cyl_off_axis.

Theorem cyl_sph_cyl_everywhere : forall p, sph2cyl (cyl2sph p) = p.
Proof. exact cyl_sph_cyl. Qed.
Print Assumptions cyl_sph_cyl_everywhere.

Theorem sph_cyl_sph_off_origin : forall r th ph, 0 < r -> 0 <= th <= PI ->
  cyl2sph (sph2cyl (r, th, ph)) = (r, th, ph).
Proof. exact sph_cyl_sph. Qed.
Print Assumptions sph_cyl_sph_off_origin.

(** ** composition through a third system = the direct conversion (all six routes) *)
Theorem compose_cyl_sph : forall p, cyl2sph (cart2cyl p) = cart2sph p.
Proof. exact compose_cart_cyl_sph. Qed.
Print Assumptions compose_cyl_sph.

Theorem compose_sph_cyl : forall p, sph2cyl (cart2sph p) = cart2cyl p.
Proof. exact compose_cart_sph_cyl. Qed.
Print Assumptions compose_sph_cyl.

Theorem compose_sph_cyl_to_cart : forall p, cyl2cart (sph2cyl p) = sph2cart p.
Proof. exact compose_sph_cyl_cart. Qed.
Print Assumptions compose_sph_cyl_to_cart.

Theorem compose_cyl_sph_to_cart : forall p, sph2cart (cyl2sph p) = cyl2cart p.
Proof. exact compose_cyl_sph_cart. Qed.
Print Assumptions compose_cyl_sph_to_cart.

Theorem compose_sph_cart_to_cyl : forall r th ph, 0 < r -> 0 < th < PI -> 0 <= ph < 2 * PI ->
  cart2cyl (sph2cart (r, th, ph)) = sph2cyl (r, th, ph).
Proof. exact compose_sph_cart_cyl. Qed.
Print Assumptions compose_sph_cart_to_cyl.

Theorem compose_cyl_cart_to_sph : forall rho ph z, 0 < rho -> 0 <= ph < 2 * PI ->
  cart2sph (cyl2cart (rho, ph, z)) = cyl2sph (rho, ph, z).
Proof. exact compose_cyl_cart_sph. Qed.
Print Assumptions compose_cyl_cart_to_sph.

(** ** distance from the origin is kept by all nine table entries *)
Theorem radius_is_preserved : forall a b p, dist0 b (transform a b p) = dist0 a p.
Proof. exact radius_preserved. Qed.
Print Assumptions radius_is_preserved.

(** ** ranges of the returned angles (over the reals the azimuth never reaches 2 pi; the closed
    upper end of the property text arises only by rounding - looked at by the harness) *)
Theorem ranges_cart2sph : forall p, let '(r, th, ph) := cart2sph p in 0 <= r /\ 0 <= th <= PI /\ 0 <= ph < 2 * PI.
Proof. exact cart2sph_ranges. Qed.
Print Assumptions ranges_cart2sph.

Theorem ranges_cart2cyl : forall p, let '(rho, ph, _) := cart2cyl p in 0 <= rho /\ 0 <= ph < 2 * PI.
Proof. exact cart2cyl_ranges. Qed.
Print Assumptions ranges_cart2cyl.

Theorem ranges_cyl2sph : forall rho ph z, 0 <= rho -> let '(r, th, _) := cyl2sph (rho, ph, z) in 0 <= r /\ 0 <= th <= PI.
Proof. exact cyl2sph_ranges. Qed.
Print Assumptions ranges_cyl2sph.

(** ** find_transformation_function: all nine ordered pairs exist, every other name is refused *)
Theorem transformation_table_total : forall a b,
  find_transformation a b <> None <-> (csys_of_name a <> None /\ csys_of_name b <> None).
Proof. exact find_transformation_total. Qed.
Print Assumptions transformation_table_total.

(** ** the Euler rotation matrix *)
(* documented convention: rotate by alpha about z, then beta about y, then gamma about z (active),
   i.e. Rz(gamma) Ry(beta) Rz(alpha); radians or degrees *)
Theorem rot_zyz : forall a b g rad,
  let k := fun x => to_radians RO rad (PI / 180) x in
  rotation_matrix a b g rad =
  mmul RO (Rz RO (cos (k g)) (sin (k g))) (mmul RO (Ry RO (cos (k b)) (sin (k b))) (Rz RO (cos (k a)) (sin (k a)))).
Proof. exact rotation_matrix_zyz. Qed.
Print Assumptions rot_zyz.

Theorem rot_degrees : forall a b g,
  rotation_matrix a b g false = rotation_matrix (a * (PI/180)) (b * (PI/180)) (g * (PI/180)) true.
Proof. exact rotation_matrix_degrees. Qed.
Print Assumptions rot_degrees.

Theorem rot_orthogonal : forall a b g rad,
  mmul RO (mcol (rotation_matrix a b g rad)) (rotation_matrix a b g rad) = mid RO /\
  mmul RO (rotation_matrix a b g rad) (mcol (rotation_matrix a b g rad)) = mid RO.
Proof. intros. split; [apply rotation_matrix_orthogonal|apply rotation_matrix_orthogonal_r]. Qed.
Print Assumptions rot_orthogonal.

Theorem rot_det1 : forall a b g rad, det RO (rotation_matrix a b g rad) = 1.
Proof. exact rotation_matrix_det. Qed.
Print Assumptions rot_det1.

(* the nine polynomial entries on ANY leaf values with c^2+s^2=1 (what the executed Q instance receives
   are rounded cos/sin values; the statement needs only the Pythagorean relation) *)
Theorem rotM_orthogonal_det1 : forall ca sa cb sb cg sg,
  ca*ca + sa*sa = 1 -> cb*cb + sb*sb = 1 -> cg*cg + sg*sg = 1 ->
  orthogonal (rotM RO ca sa cb sb cg sg) /\ det RO (rotM RO ca sa cb sb cg sg) = 1.
Proof. intros. split; [apply orthogonal_rotM|apply rotM_det]; assumption. Qed.
Print Assumptions rotM_orthogonal_det1.

(** ** rotate_points: any number of points, mutual distances and distance from the origin kept *)
Theorem rotate_isometry : forall (m : mat R) pts i j d, orthogonal m ->
  (i < length pts)%nat -> (j < length pts)%nat ->
  length (rotate_points RO m pts) = length pts /\
  dist2 RO (nth i (rotate_points RO m pts) d) (nth j (rotate_points RO m pts) d) = dist2 RO (nth i pts d) (nth j pts d) /\
  dot RO (nth i (rotate_points RO m pts) d) (nth i (rotate_points RO m pts) d) = dot RO (nth i pts d) (nth i pts d).
Proof. intros m pts i j d Ho Hi Hj. split; [apply rotate_points_length|].
  split; [apply rotate_points_isometry|apply rotate_points_norm]; assumption. Qed.
Print Assumptions rotate_isometry.

(** ** composites (any number >= 1 of members) *)
(* Scatterers.rotated: every member goes to com + M (c - com); mutual distances kept; the centroid
   stays; the number of members stays *)
Theorem composite_rotation_is_rigid : forall (m : mat R) cs, orthogonal m -> cs <> [] ->
  let com := vmean RO cs in
  rotated_flat RO m cs = map (about m com) cs /\
  (forall p q, dist2 RO (about m com p) (about m com q) = dist2 RO p q) /\
  vmean RO (rotated_flat RO m cs) = com /\
  length (rotated_flat RO m cs) = length cs.
Proof. exact composite_rotation_rigid. Qed.
Print Assumptions composite_rotation_is_rigid.

Theorem composite_rotation_keeps_pairwise_distances : forall (m : mat R) cs i j d, orthogonal m ->
  (i < length cs)%nat -> (j < length cs)%nat ->
  dist2 RO (nth i (rotated_flat RO m cs) d) (nth j (rotated_flat RO m cs) d) = dist2 RO (nth i cs d) (nth j cs d).
Proof. exact rotated_flat_pairwise. Qed.
Print Assumptions composite_rotation_keeps_pairwise_distances.

Theorem composite_single_member_stays : forall (m : mat R) (c : vec R), rotated_flat RO m [c] = [c].
Proof. exact rotated_flat_single. Qed.
Print Assumptions composite_single_member_stays.

(* Scatterers.translated: centroid shifted by exactly the vector, mutual distances kept *)
Theorem composite_translation_is_rigid : forall t cs, cs <> [] ->
  translated_flat RO t cs = map (fun c => vadd RO c t) cs /\
  (forall p q, dist2 RO (vadd RO p t) (vadd RO q t) = dist2 RO p q) /\
  vmean RO (translated_flat RO t cs) = vadd RO (vmean RO cs) t.
Proof. exact composite_translation_rigid. Qed.
Print Assumptions composite_translation_is_rigid.

Theorem composite_translation_keeps_pairwise_distances : forall t cs i j d,
  (i < length cs)%nat -> (j < length cs)%nat ->
  dist2 RO (nth i (translated_flat RO t cs) d) (nth j (translated_flat RO t cs) d) = dist2 RO (nth i cs d) (nth j cs d).
Proof. exact translated_flat_pairwise. Qed.
Print Assumptions composite_translation_keeps_pairwise_distances.

(* RigidCluster.scatterers = rotate about the centroid, then translate *)
Theorem rigid_cluster_is_rigid : forall (m : mat R) t cs, orthogonal m -> cs <> [] ->
  let com := vmean RO cs in
  let f := fun c => vadd RO (about m com c) t in
  rigid_cluster RO m t cs = map f cs /\
  (forall p q, dist2 RO (f p) (f q) = dist2 RO p q) /\
  vmean RO (rigid_cluster RO m t cs) = vadd RO com t.
Proof. exact rigid_cluster_rigid. Qed.
Print Assumptions rigid_cluster_is_rigid.

Theorem rigid_cluster_keeps_pairwise_distances : forall (m : mat R) t cs i j d, orthogonal m -> cs <> [] ->
  (i < length cs)%nat -> (j < length cs)%nat ->
  dist2 RO (nth i (rigid_cluster RO m t cs) d) (nth j (rigid_cluster RO m t cs) d) = dist2 RO (nth i cs d) (nth j cs d).
Proof. exact rigid_cluster_pairwise. Qed.
Print Assumptions rigid_cluster_keeps_pairwise_distances.

(** ** nested composites (e.g. a Scatterers holding Sphere and Spheres members, any depth, every
    sub-composite non-empty): all leaf spheres undergo the one map p |-> com + M (p - com) about the
    centre of the top-level composite (so their mutual distances are kept when M is orthogonal, by
    composite_rotation_is_rigid's isometry clause), and the composite's centre stays *)
Theorem nested_composite_rotation_is_rigid : forall (m : mat R) (s : scat R), wf s ->
  leaves (rotated RO m s) = map (about m (center RO s)) (leaves s) /\
  center RO (rotated RO m s) = center RO s.
Proof. exact rotated_tree_rigid. Qed.
Print Assumptions nested_composite_rotation_is_rigid.

Theorem nested_composite_translation_is_rigid : forall t (s : scat R), wf s ->
  leaves (translate RO t s) = map (fun p => vadd RO p t) (leaves s) /\
  center RO (translate RO t s) = vadd RO (center RO s) t.
Proof. exact translated_tree_rigid. Qed.
Print Assumptions nested_composite_translation_is_rigid.

(** ** the Q instance that vm_compute runs is the R instance the theorems are about *)
Theorem q_instance_is_r_instance : forall ca sa cb sb cg sg m v pts,
  mQ2R (rotM QO ca sa cb sb cg sg) = rotM RO (Q2R ca) (Q2R sa) (Q2R cb) (Q2R sb) (Q2R cg) (Q2R sg) /\
  vQ2R (mvec QO m v) = mvec RO (mQ2R m) (vQ2R v) /\
  map vQ2R (rotate_points QO m pts) = rotate_points RO (mQ2R m) (map vQ2R pts).
Proof. intros. split; [apply rotM_Q_R|split; [apply mvec_Q_R|apply rotate_points_Q_R]]. Qed.
Print Assumptions q_instance_is_r_instance.

(** ** non-vacuity: the hypotheses used above are satisfiable, and the statements are not trivial *)
Example orthogonal_satisfiable : orthogonal (rotation_matrix 1 2 3 true) /\ orthogonal (rotation_matrix 30 45 60 false).
Proof. split; apply rotation_matrix_orthogonal. Qed.
Example off_singularity_domain_inhabited : 0 < 2 /\ 0 < 1 < PI /\ 0 <= 4 < 2 * PI.
Proof. pose proof PI_4 as H. pose proof PI_RGT_0. repeat split; try lra;
  [apply Rlt_trans with 3; [lra|]|]; interval. Qed.
(* the rotation by (pi/2, 0, 0) really moves the x axis onto the y axis: the matrix is not the identity *)
Example rotation_moves_points : mvec RO (rotation_matrix (PI/2) 0 0 true) (1, 0, 0) = (0, 1, 0).
Proof. unfold rotation_matrix, to_radians, rotM, mvec, dot; cbn [add mul sub opp zero one RO].
  rewrite cos_PI2, sin_PI2, cos_0, sin_0. repeat (apply f_equal2); ring. Qed.
Example wf_inhabited : wf (Node [Leaf (1,0,0); Node [Leaf (0,1,0); Leaf (0,0,1)]]).
Proof. simpl. repeat split; discriminate. Qed.
(* a two-member composite really moves under that rotation while its centroid stays *)
Example composite_moves : rotated_flat RO (rotation_matrix (PI/2) 0 0 true) [(1,0,0); (-1,0,0)] = [(0,1,0); (0,-1,0)].
Proof. rewrite rotated_flat_about. unfold about, vmean, vsum, vdivs, vadd, vsub, vzero, rotation_matrix, to_radians, rotM, mvec, dot;
  simpl; cbn [add mul sub opp zero one inv ofZ RO]. rewrite cos_PI2, sin_PI2, cos_0, sin_0.
  repeat (apply f_equal2); try reflexivity; field. Qed.

(** C13 - proofs.  Object of the theorems: the R instance of Model.v.  The optimisers are
    universally quantified functions; each theorem names the clause(s) of their CONTRACT it
    uses as explicit premises (never axioms).  Convergence / recovery of Levenberg-Marquardt are
    NOT proved anywhere: they are explored by the harness. *)
From Coq Require Import String ZArith List Bool Reals QArith Qreals Lra Lia Psatz.
From HV Require Import Common.Generic C14.Model C14.Lemmas C13.Model.
Import ListNotations.
Local Open Scope R_scope.

(** * well-formed fitted parameter: what the prior constructors guarantee *)
Record wf (p : fpar R) : Prop := mkWf {
  wf_sf : 0 < fp_sf p;
  wf_guess : outside RO (fp_lo p) (fp_hi p) (fp_guess p) = false;
  wf_lnp : forall v, fp_lnp p v = None <-> outside RO (fp_lo p) (fp_hi p) v = true }.

Lemma wf_uniform lnf lo hi g u : uniform_ctor RO lnf lo hi g = Ok u -> wf (of_uniform RO u).
Proof. intros H. split; cbn [of_uniform fp_sf fp_lo fp_hi fp_guess fp_lnp].
  - apply (uniform_scale_pos _ _ _ _ _ H).
  - apply outside_false. apply (uniform_guess_in_support _ _ _ _ _ H).
  - intros v. unfold uniform_lnprob. destruct (outside RO (u_lo u) (u_hi u) v); split; congruence. Qed.
Lemma wf_gaussian lnf s2pi mu sd g : gaussian_ctor RO lnf s2pi mu sd = Ok g -> wf (of_gaussian RO g).
Proof. intros H. apply gaussian_ctor_ok in H. destruct H as (_ & _ & _ & _ & Hs).
  split; cbn [of_gaussian fp_sf fp_lo fp_hi fp_guess fp_lnp]; [exact Hs|reflexivity|].
  intros v. cbn. split; discriminate. Qed.
Lemma wf_bgaussian lnf s2pi mu sd lo hi b : bgaussian_ctor RO lnf s2pi mu sd lo hi = Ok b -> wf (of_bgaussian RO b).
Proof. intros H. pose proof (bgaussian_guess_in_support _ _ _ _ _ _ _ H) as Hg.
  apply bgaussian_ctor_ok in H. destruct H as (_ & _ & _ & _ & Hc). apply gaussian_ctor_ok in Hc.
  destruct Hc as (_ & _ & _ & _ & Hs).
  split; cbn [of_bgaussian fp_sf fp_lo fp_hi fp_guess fp_lnp]; [exact Hs|apply outside_false, Hg|].
  intros v. unfold bgaussian_lnprob. destruct (outside RO (bg_lo b) (bg_hi b) v); split; congruence. Qed.

Lemma wf_sf_nz ps : Forall wf ps -> Forall (fun p => fp_sf p <> 0) ps.
Proof. intros H. eapply Forall_impl; [|exact H]. intros p [Hs _ _]. cbn. lra. Qed.
Lemma wf_sf_pos ps : Forall wf ps -> Forall (fun p => 0 < fp_sf p) ps.
Proof. intros H. eapply Forall_impl; [|exact H]. intros p [Hs _ _]. exact Hs. Qed.

(** * scale / unscale are inverse, componentwise, for any parameter list *)
Lemma unscale_scaled_guess p : fp_sf p <> 0 -> unscale RO (fp_sf p) (scaled_guess RO p) = fp_guess p.
Proof. intros H. unfold scaled_guess. apply scale_unscale, H. Qed.
Lemma unscale_all_length ps xs : length xs = length ps -> length (unscale_all RO ps xs) = length ps.
Proof. intros H. unfold unscale_all. rewrite map_length, combine_length. lia. Qed.
Lemma unscale_scale_all ps : Forall (fun p => fp_sf p <> 0) ps -> forall vs, length vs = length ps ->
  unscale_all RO ps (scale_all RO ps vs) = vs.
Proof. induction 1 as [|p ps Hp _ IH]; intros [|v vs] Hl; try discriminate; [reflexivity|].
  cbn. f_equal; [apply scale_unscale, Hp|]. apply IH. cbn in Hl. lia. Qed.
Lemma scale_unscale_all ps : Forall (fun p => fp_sf p <> 0) ps -> forall xs, length xs = length ps ->
  scale_all RO ps (unscale_all RO ps xs) = xs.
Proof. induction 1 as [|p ps Hp _ IH]; intros [|v vs] Hl; try discriminate; [reflexivity|].
  cbn. f_equal; [apply scale_unscale, Hp|]. apply IH. cbn in Hl. lia. Qed.
Lemma unscale_all_start ps : Forall (fun p => fp_sf p <> 0) ps ->
  unscale_all RO ps (pi_start (nmp_parinfo RO ps)) = guesses ps.
Proof. induction 1 as [|p ps Hp _ IH]; [reflexivity|]. cbn. f_equal; [apply unscale_scaled_guess, Hp|exact IH]. Qed.
Lemma unscale_all_scipy_start ps : Forall (fun p => fp_sf p <> 0) ps ->
  unscale_all RO ps (scipy_start RO ps) = guesses ps.
Proof. induction 1 as [|p ps Hp _ IH]; [reflexivity|]. cbn. f_equal; [apply unscale_scaled_guess, Hp|exact IH]. Qed.
Lemma scipy_start_is_nmp_start ps : scipy_start RO ps = pi_start (nmp_parinfo RO ps).
Proof. unfold scipy_start, pi_start, nmp_parinfo. rewrite map_map. reflexivity. Qed.

(** * limits handed to mpfit <=> physical bounds *)
Lemma Rltb_scale_lo sf a x : 0 < sf -> Rltb x (a * / sf) = Rltb (x * sf) a.
Proof. intros Hs. assert (E : a = a * / sf * sf) by (field; lra).
  destruct (Rltb x (a * / sf)) eqn:E1; symmetry.
  - apply Rltb_true. apply Rltb_true in E1. rewrite E. apply Rmult_lt_compat_r; assumption.
  - apply Rltb_false. apply Rltb_false in E1. rewrite E at 1. apply Rmult_le_compat_r; lra. Qed.
Lemma Rltb_scale_hi sf a x : 0 < sf -> Rltb (a * / sf) x = Rltb a (x * sf).
Proof. intros Hs. assert (E : a = a * / sf * sf) by (field; lra).
  destruct (Rltb (a * / sf) x) eqn:E1; symmetry.
  - apply Rltb_true. apply Rltb_true in E1. rewrite E. apply Rmult_lt_compat_r; assumption.
  - apply Rltb_false. apply Rltb_false in E1. rewrite E at 1. apply Rmult_le_compat_r; lra. Qed.
Lemma limits_iff_bounds1 p x : 0 < fp_sf p ->
  within_limits1 RO (nmp_parinfo1 RO p) x = negb (outside RO (fp_lo p) (fp_hi p) (unscale RO (fp_sf p) x)).
Proof. intros Hs. unfold within_limits1, nmp_parinfo1, outside, lt_lo, gt_hi, escale, scale, unscale.
  destruct (fp_lo p), (fp_hi p); cbn; ro;
    rewrite ?(Rltb_scale_lo _ _ _ Hs), ?(Rltb_scale_hi _ _ _ Hs), ?negb_orb, ?andb_true_r; reflexivity. Qed.
Lemma limits_iff_bounds ps : Forall (fun p => 0 < fp_sf p) ps -> forall xs,
  within_limits RO (nmp_parinfo RO ps) xs = within_bounds RO ps (unscale_all RO ps xs).
Proof. induction 1 as [|p ps Hp _ IH]; intros [|x xs]; try reflexivity.
  cbn [nmp_parinfo map within_limits within_bounds unscale_all combine forallb fst snd].
  rewrite (limits_iff_bounds1 p x Hp). f_equal. apply IH. Qed.
Lemma guesses_within ps : Forall wf ps -> within_bounds RO ps (guesses ps) = true.
Proof. induction 1 as [|p ps Hp _ IH]; [reflexivity|]. cbn. rewrite (wf_guess _ Hp). exact IH. Qed.
Lemma within_bounds_spec ps : forall vs, length vs = length ps ->
  (within_bounds RO ps vs = true <->
   forall i, (i < length ps)%nat -> in_support (fp_lo (nth i ps (mkP 0 1 NegInf PosInf (fun _ => None))))
                                              (fp_hi (nth i ps (mkP 0 1 NegInf PosInf (fun _ => None)))) (nth i vs 0)).
Proof. induction ps as [|p ps IH]; intros [|v vs] Hl; try discriminate.
  - split; [intros _ i Hi; cbn in Hi; lia|reflexivity].
  - cbn [within_bounds combine forallb fst snd]. rewrite andb_true_iff, negb_true_iff, outside_false.
    fold (within_bounds RO ps vs). rewrite (IH vs) by (cbn in Hl; lia). split.
    + intros [H0 Hr] [|i] Hi; [exact H0|]. apply Hr. cbn in Hi. lia.
    + intros H. split; [apply (H 0%nat); cbn; lia|]. intros i Hi. apply (H (S i)). cbn. lia. Qed.

(** * costs on the extended line: None = +inf *)
Definition ole (a b : option R) : Prop :=
  match a, b with _, None => True | None, Some _ => False | Some x, Some y => x <= y end.
Lemma tcost_nonneg d : 0 <= tcost RO d.
Proof. induction d as [|a d IH]; unfold tcost in *; cbn in *; ro; [lra|]. nra. Qed.
Lemma xcost_nil : xcost RO [] = Some 0. Proof. reflexivity. Qed.
Lemma xcost_cons x r : xcost RO (x :: r) =
  match x, xcost RO r with XFin v, Some a => Some (v * v + a) | _, _ => None end.
Proof. reflexivity. Qed.
Lemma xcost_nonneg r : forall c, xcost RO r = Some c -> 0 <= c.
Proof. induction r as [|x r IH]; intros c H.
  - rewrite xcost_nil in H. inversion H. lra.
  - rewrite xcost_cons in H. destruct x; [|discriminate]. destruct (xcost RO r) as [a|]; [|discriminate].
    inversion H; subst. specialize (IH a eq_refl). nra. Qed.
Lemma tcost_cons a d : tcost RO (a :: d) = a * a + tcost RO d. Proof. reflexivity. Qed.
Lemma xcost_app_fin d r :
  xcost RO (map XFin d ++ r) = match xcost RO r with Some c => Some (tcost RO d + c) | None => None end.
Proof. induction d as [|a d IH]; cbn [map app].
  - destruct (xcost RO r); [|reflexivity]. f_equal. change (tcost RO []) with 0. lra.
  - rewrite xcost_cons, IH. destruct (xcost RO r); [|reflexivity]. rewrite tcost_cons. f_equal. lra. Qed.
Lemma xcost_zeros (r : list (xval R)) : Forall (fun x => x = XFin 0) r -> xcost RO r = Some 0.
Proof. induction 1 as [|x r Hx _ IH]; [reflexivity|]. subst x. rewrite xcost_cons, IH. f_equal. lra. Qed.
Lemma xall_zero_zeros (r : list (xval R)) : Forall (fun x => x = XFin 0) r -> xall_zero RO r = true.
Proof. induction 1 as [|x r Hx _ IH]; [reflexivity|]. subst x. cbn. ro. rewrite Reqb_refl. exact IH. Qed.

(** * residuals at the guess, and at the truth *)
Section Resid.
Variable sqrtf : R -> R.
Hypothesis sqrt0 : sqrtf 0 = 0.           (* the only fact about np.sqrt that is used *)
Variable fwd : list R -> list R.
Variable data : list R.
Variable noise : R.

Lemma prior_at_guess p : wf p -> prior_res1 RO sqrtf p (fp_guess p) = XFin 0.
Proof. intros W. unfold prior_res1. destruct (fp_lnp p (fp_guess p)) as [g|] eqn:E.
  - ro. replace (g - g) with 0 by ring. rewrite sqrt0. reflexivity.
  - apply (wf_lnp _ W) in E. rewrite (wf_guess _ W) in E. discriminate. Qed.
Lemma prior_part_at_guess ps : Forall wf ps ->
  Forall (fun x => x = XFin 0) (map (fun pv => prior_res1 RO sqrtf (fst pv) (snd pv)) (combine ps (guesses ps))).
Proof. induction 1 as [|p ps Hp _ IH]; [constructor|]. cbn. constructor; [apply prior_at_guess, Hp|exact IH]. Qed.

Lemma nmp_cost ps vals : xcost RO (nmp_residuals RO sqrtf fwd data noise ps vals) =
  match xcost RO (map (fun pv => prior_res1 RO sqrtf (fst pv) (snd pv)) (combine ps vals)) with
  | Some c => Some (tcost RO (data_res RO fwd data noise vals) + c) | None => None end.
Proof. unfold nmp_residuals. apply xcost_app_fin. Qed.
Lemma nmp_cost_at_guess ps : Forall wf ps ->
  xcost RO (nmp_residuals RO sqrtf fwd data noise ps (guesses ps)) =
  Some (tcost RO (data_res RO fwd data noise (guesses ps)) + 0).
Proof. intros W. rewrite nmp_cost, (xcost_zeros _ (prior_part_at_guess ps W)). reflexivity. Qed.

(** a finite misfit forces every value inside its prior's bounds (the +inf prior residual) *)
Lemma finite_prior_part_within ps : Forall wf ps -> forall vals c, length vals = length ps ->
  xcost RO (map (fun pv => prior_res1 RO sqrtf (fst pv) (snd pv)) (combine ps vals)) = Some c ->
  within_bounds RO ps vals = true.
Proof. induction 1 as [|p ps Hp _ IH]; intros [|v vals] c Hl Hc; try discriminate; [reflexivity|].
  cbn [combine map fst snd] in Hc.
  change (xcost RO (?x :: ?r)) with
    (match x, xcost RO r with XFin w, Some a => Some (w * w + a) | _, _ => None end) in Hc.
  cbn [within_bounds combine forallb fst snd].
  destruct (prior_res1 RO sqrtf p v) eqn:E; [|discriminate].
  destruct (xcost RO _) as [a|] eqn:Ea in Hc; [|discriminate].
  fold (within_bounds RO ps vals). rewrite (IH vals a) by (cbn in Hl; auto; lia). rewrite andb_true_r.
  destruct (outside RO (fp_lo p) (fp_hi p) v) eqn:Eo; [|reflexivity].
  apply (wf_lnp _ Hp) in Eo. unfold prior_res1 in E. rewrite Eo in E.
  destruct (fp_lnp p (fp_guess p)); discriminate. Qed.
Lemma nmp_finite_within ps vals c : Forall wf ps -> length vals = length ps ->
  xcost RO (nmp_residuals RO sqrtf fwd data noise ps vals) = Some c -> within_bounds RO ps vals = true.
Proof. intros W Hl Hc. rewrite nmp_cost in Hc.
  destruct (xcost RO (map _ (combine ps vals))) as [a|] eqn:E; [|discriminate].
  apply (finite_prior_part_within ps W vals a Hl E). Qed.

(** the scipy z-score *)
Lemma fold_oadd_none l : fold_left (oadd RO) l None = None.
Proof. induction l as [|x l IH]; [reflexivity|]. cbn. exact IH. Qed.
Lemma fold_oadd_some l : forall a b, fold_left (oadd RO) l (Some a) = Some b -> Forall (fun o => o <> None) l.
Proof. induction l as [|x l IH]; intros a b H; [constructor|]. cbn in H. destruct x as [x|].
  - constructor; [discriminate|]. apply (IH _ _ H).
  - rewrite fold_oadd_none in H. discriminate. Qed.
Lemma lnprior_guess_some ps : Forall wf ps -> exists g, lnprior RO ps (guesses ps) = Some g.
Proof. intros W. unfold lnprior. generalize (zero RO). induction W as [|p ps Hp _ IH]; intros a; [eexists; reflexivity|].
  cbn. destruct (fp_lnp p (fp_guess p)) as [g|] eqn:E.
  - cbn. apply IH.
  - apply (wf_lnp _ Hp) in E. rewrite (wf_guess _ Hp) in E. discriminate. Qed.
Lemma zscore_at_guess ps : Forall wf ps -> zscore RO sqrtf ps (guesses ps) = XFin 0.
Proof. intros W. unfold zscore. destruct (lnprior_guess_some ps W) as [g ->]. ro.
  replace (two RO * - (g - g)) with 0 by (unfold two; ro; ring). rewrite sqrt0. reflexivity. Qed.
Lemma scipy_cost ps vals : xcost RO (scipy_residuals RO sqrtf fwd data noise ps vals) =
  match xcost RO [zscore RO sqrtf ps vals] with
  | Some c => Some (tcost RO (data_res RO fwd data noise vals) + c) | None => None end.
Proof. unfold scipy_residuals. apply xcost_app_fin. Qed.
Lemma scipy_cost_at_guess ps : Forall wf ps ->
  xcost RO (scipy_residuals RO sqrtf fwd data noise ps (guesses ps)) =
  Some (tcost RO (data_res RO fwd data noise (guesses ps)) + 0).
Proof. intros W. rewrite scipy_cost, (zscore_at_guess ps W). cbn; ro. repeat f_equal. lra. Qed.
Lemma lnprior_some_within ps : Forall wf ps -> forall vals l, length vals = length ps ->
  lnprior RO ps vals = Some l -> within_bounds RO ps vals = true.
Proof. intros W vals l Hl H. unfold lnprior in H. apply fold_oadd_some in H. revert vals Hl H.
  induction W as [|p ps Hp _ IH]; intros [|v vals] Hl H; try discriminate; [reflexivity|].
  cbn in H. inversion H as [|? ? H1 H2]; subst. cbn [within_bounds combine forallb fst snd].
  fold (within_bounds RO ps vals). rewrite (IH vals) by (cbn in Hl; auto; lia). rewrite andb_true_r.
  destruct (outside RO (fp_lo p) (fp_hi p) v) eqn:Eo; [|reflexivity].
  apply (wf_lnp _ Hp) in Eo. contradiction. Qed.
Lemma scipy_finite_within ps vals c : Forall wf ps -> length vals = length ps ->
  xcost RO (scipy_residuals RO sqrtf fwd data noise ps vals) = Some c -> within_bounds RO ps vals = true.
Proof. intros W Hl Hc. rewrite scipy_cost in Hc. unfold zscore in Hc.
  destruct (lnprior RO ps (guesses ps)) as [g|]; [|discriminate].
  destruct (lnprior RO ps vals) as [l|] eqn:E; [|discriminate].
  apply (lnprior_some_within ps W vals l Hl E). Qed.

(** noise-free self-generated data, guess = truth: the residual vector is exactly zero *)
Lemma data_res_at_truth truth : data = fwd truth ->
  Forall (fun x => x = XFin 0) (map XFin (data_res RO fwd data noise truth)).
Proof. intros ->. unfold data_res. induction (fwd truth) as [|a l IH]; [constructor|].
  cbn. constructor; [|exact IH]. ro. f_equal. ring. Qed.
Lemma nmp_residual_zero_at_truth ps : Forall wf ps -> data = fwd (guesses ps) ->
  Forall (fun x => x = XFin 0) (nmp_resid_scaled RO sqrtf fwd data noise ps (pi_start (nmp_parinfo RO ps))).
Proof. intros W Hd. unfold nmp_resid_scaled. rewrite (unscale_all_start ps (wf_sf_nz ps W)).
  unfold nmp_residuals. apply Forall_app. split; [apply data_res_at_truth, Hd|apply prior_part_at_guess, W]. Qed.
Lemma scipy_residual_zero_at_truth ps : Forall wf ps -> data = fwd (guesses ps) ->
  Forall (fun x => x = XFin 0) (scipy_resid_scaled RO sqrtf fwd data noise ps (scipy_start RO ps)).
Proof. intros W Hd. unfold scipy_resid_scaled. rewrite (unscale_all_scipy_start ps (wf_sf_nz ps W)).
  unfold scipy_residuals. apply Forall_app. split; [apply data_res_at_truth, Hd|].
  constructor; [apply zscore_at_guess, W|constructor]. Qed.
End Resid.

(** * result bookkeeping *)
Lemma res_values_intervals (f : list R) : forall e n, length e = length f -> length n = length f ->
  res_values (intervals f e n) = f.
Proof. induction f as [|a f IH]; intros [|b e] [|c n] He Hn; try discriminate; [reflexivity|].
  cbn. f_equal. apply IH; cbn in *; lia. Qed.
Lemma res_names_intervals (f : list R) : forall e n, length e = length f -> length n = length f ->
  res_names (intervals f e n) = n.
Proof. induction f as [|a f IH]; intros [|b e] [|c n] He Hn; try discriminate; [reflexivity|].
  cbn. f_equal. apply IH; cbn in *; lia. Qed.
Lemma res_errors_intervals (f : list R) : forall e n, length e = length f -> length n = length f ->
  map uv_plus (intervals f e n) = e /\ map uv_minus (intervals f e n) = e.
Proof. induction f as [|a f IH]; intros [|b e] [|c n] He Hn; try discriminate; [split; reflexivity|].
  cbn. destruct (IH e n) as [H1 H2]; cbn in *; try lia. split; f_equal; assumption. Qed.
Lemma dict_get_notin k (l : list (string * R)) : ~ In k (map fst l) -> dict_get k l = None.
Proof. induction l as [|[k' v] l IH]; intros H; [reflexivity|]. cbn in *.
  rewrite IH by tauto. destruct (String.eqb k k') eqn:E; [|reflexivity].
  apply String.eqb_eq in E. subst. tauto. Qed.
Lemma dict_get_combine (ks : list string) : NoDup ks -> forall (vs : list R), length vs = length ks ->
  forall i, (i < length ks)%nat -> dict_get (nth i ks ""%string) (combine ks vs) = Some (nth i vs 0).
Proof. induction 1 as [|k ks Hk _ IH]; intros [|v vs] Hl i Hi; try discriminate; [cbn in Hi; lia|].
  destruct i as [|i]; cbn [nth combine dict_get].
  - rewrite dict_get_notin; [rewrite String.eqb_refl; reflexivity|].
    intros Hin. apply Hk. clear - Hin Hl. revert vs Hl Hin. induction ks as [|a ks IH]; intros [|b vs] Hl Hin; cbn in *; try tauto; try discriminate.
    destruct Hin as [->|Hin]; [left; reflexivity|right]. apply (IH vs); [lia|exact Hin].
  - rewrite (IH vs) by (cbn in *; lia). reflexivity. Qed.

(** * the contracts of the two optimisers (clauses are premises of the theorems below) *)
Definition OptN := (list R -> list (xval R)) -> list (parinfo R) -> list R * option (list R).
Definition OptS := (list R -> list (xval R)) -> list R -> list R * list R.
Definition n_never_worse (opt : OptN) := forall f pis,
  ole (xcost RO (f (fst (opt f pis)))) (xcost RO (f (pi_start pis))).
Definition n_respects_limits (opt : OptN) := forall f pis,
  within_limits RO pis (pi_start pis) = true -> within_limits RO pis (fst (opt f pis)) = true.
Definition n_zero_fixed (opt : OptN) := forall f pis,
  xall_zero RO (f (pi_start pis)) = true -> fst (opt f pis) = pi_start pis.
Definition n_shape (opt : OptN) := forall f pis, length (fst (opt f pis)) = length pis /\
  match snd (opt f pis) with Some e => length e = length pis | None => True end.
Definition s_never_worse (opt : OptS) := forall f x0, ole (xcost RO (f (fst (opt f x0)))) (xcost RO (f x0)).
Definition s_zero_fixed (opt : OptS) := forall f x0, xall_zero RO (f x0) = true -> fst (opt f x0) = x0.
Definition s_shape (opt : OptS) := forall f x0,
  length (fst (opt f x0)) = length x0 /\ length (snd (opt f x0)) = length x0.

Section Fits.
Variable sqrtf : R -> R.
Hypothesis sqrt0 : sqrtf 0 = 0.
Variable fwd : list R -> list R.
Variable data : list R.
Variable noise : R.
Variable ps : list (fpar R).
Variable names : list string.
Hypothesis W : Forall wf ps.
Hypothesis Hnames : length names = length ps.

Lemma nmp_parinfo_length : length (nmp_parinfo RO ps) = length ps.
Proof. apply map_length. Qed.
Lemma nmp_errors_length perr : match perr with Some e => length e = length ps | None => True end ->
  length (nmp_errors RO ps perr) = length ps.
Proof. intros H. unfold nmp_errors. apply unscale_all_length. destruct perr; [exact H|apply map_length]. Qed.

Section N.
Variable opt : OptN.
Hypothesis Hshape : n_shape opt.
Let F := nmp_resid_scaled RO sqrtf fwd data noise ps.
Let out := opt F (nmp_parinfo RO ps).
Let result := nmp_fit RO sqrtf opt fwd data noise ps names.

Lemma nmp_values : res_values result = unscale_all RO ps (fst out).
Proof. unfold result, nmp_fit, nmp_intervals. destruct (Hshape F (nmp_parinfo RO ps)) as [H1 H2].
  rewrite nmp_parinfo_length in *. fold F out in H1, H2 |- *. apply res_values_intervals.
  - rewrite nmp_errors_length, unscale_all_length; auto.
  - rewrite unscale_all_length; auto. Qed.
Lemma nmp_names : res_names result = names.
Proof. unfold result, nmp_fit, nmp_intervals. destruct (Hshape F (nmp_parinfo RO ps)) as [H1 H2].
  rewrite nmp_parinfo_length in *. fold F out in H1, H2 |- *. apply res_names_intervals.
  - rewrite nmp_errors_length, unscale_all_length; auto.
  - rewrite unscale_all_length; auto. Qed.
Lemma nmp_values_length : length (res_values result) = length ps.
Proof. rewrite nmp_values. apply unscale_all_length. destruct (Hshape F (nmp_parinfo RO ps)) as [H1 _].
  rewrite nmp_parinfo_length in H1. exact H1. Qed.
Lemma nmp_result_errors : map uv_plus result = nmp_errors RO ps (snd out) /\ map uv_minus result = nmp_errors RO ps (snd out).
Proof. unfold result, nmp_fit, nmp_intervals. destruct (Hshape F (nmp_parinfo RO ps)) as [H1 H2].
  rewrite nmp_parinfo_length in *. fold F out in H1, H2 |- *. apply res_errors_intervals.
  - rewrite nmp_errors_length, unscale_all_length; auto.
  - rewrite unscale_all_length; auto. Qed.

Lemma nmp_cost_le : n_never_worse opt ->
  ole (xcost RO (nmp_residuals RO sqrtf fwd data noise ps (res_values result)))
      (xcost RO (nmp_residuals RO sqrtf fwd data noise ps (guesses ps))).
Proof. intros NW. rewrite nmp_values. specialize (NW F (nmp_parinfo RO ps)). fold out in NW.
  unfold F at 2, nmp_resid_scaled in NW. rewrite (unscale_all_start ps (wf_sf_nz ps W)) in NW. exact NW. Qed.
Lemma nmp_never_worse : n_never_worse opt ->
  tcost RO (data_res RO fwd data noise (res_values result)) <= tcost RO (data_res RO fwd data noise (guesses ps)).
Proof. intros NW. pose proof (nmp_cost_le NW) as H. rewrite (nmp_cost_at_guess sqrtf sqrt0 fwd data noise ps W) in H.
  rewrite nmp_cost in H. destruct (xcost RO (map _ _)) as [c|] eqn:E; [|contradiction]. cbn in H.
  apply xcost_nonneg in E. lra. Qed.
Lemma nmp_within_by_cost : n_never_worse opt -> within_bounds RO ps (res_values result) = true.
Proof. intros NW. pose proof (nmp_cost_le NW) as H. rewrite (nmp_cost_at_guess sqrtf sqrt0 fwd data noise ps W) in H.
  destruct (xcost RO (nmp_residuals RO sqrtf fwd data noise ps (res_values result))) as [c|] eqn:E; [|contradiction].
  apply (nmp_finite_within sqrtf fwd data noise ps _ c W nmp_values_length E). Qed.
Lemma nmp_within_by_limits : n_respects_limits opt -> within_bounds RO ps (res_values result) = true.
Proof. intros RL. rewrite nmp_values, <- (limits_iff_bounds ps (wf_sf_pos ps W)). apply RL.
  rewrite (limits_iff_bounds ps (wf_sf_pos ps W)), (unscale_all_start ps (wf_sf_nz ps W)). apply guesses_within, W. Qed.
Lemma nmp_fixed_point : n_zero_fixed opt -> data = fwd (guesses ps) -> res_values result = guesses ps.
Proof. intros ZF Hd. rewrite nmp_values. unfold out. rewrite ZF; [apply (unscale_all_start ps (wf_sf_nz ps W))|].
  apply xall_zero_zeros. apply (nmp_residual_zero_at_truth sqrtf sqrt0 fwd data noise ps W Hd). Qed.
End N.

Section S.
Variable opt : OptS.
Hypothesis Hshape : s_shape opt.
Let F := scipy_resid_scaled RO sqrtf fwd data noise ps.
Let out := opt F (scipy_start RO ps).
Let result := scipy_fit RO sqrtf opt fwd data noise ps names.
Lemma scipy_start_length : length (scipy_start RO ps) = length ps.
Proof. apply map_length. Qed.
Lemma scipy_values : res_values result = unscale_all RO ps (fst out).
Proof. unfold result, scipy_fit, scipy_intervals. destruct (Hshape F (scipy_start RO ps)) as [H1 H2].
  rewrite scipy_start_length in *. fold F out in H1, H2 |- *. apply res_values_intervals.
  - rewrite !unscale_all_length; auto. rewrite map_length. exact H2.
  - rewrite unscale_all_length; auto. Qed.
Lemma scipy_names : res_names result = names.
Proof. unfold result, scipy_fit, scipy_intervals. destruct (Hshape F (scipy_start RO ps)) as [H1 H2].
  rewrite scipy_start_length in *. fold F out in H1, H2 |- *. apply res_names_intervals.
  - rewrite !unscale_all_length; auto. rewrite map_length. exact H2.
  - rewrite unscale_all_length; auto. Qed.
Lemma scipy_values_length : length (res_values result) = length ps.
Proof. rewrite scipy_values. apply unscale_all_length. destruct (Hshape F (scipy_start RO ps)) as [H1 _].
  rewrite scipy_start_length in H1. exact H1. Qed.
Lemma scipy_cost_le : s_never_worse opt ->
  ole (xcost RO (scipy_residuals RO sqrtf fwd data noise ps (res_values result)))
      (xcost RO (scipy_residuals RO sqrtf fwd data noise ps (guesses ps))).
Proof. intros NW. rewrite scipy_values. specialize (NW F (scipy_start RO ps)). fold out in NW.
  unfold F at 2, scipy_resid_scaled in NW. rewrite (unscale_all_scipy_start ps (wf_sf_nz ps W)) in NW. exact NW. Qed.
Lemma scipy_never_worse : s_never_worse opt ->
  tcost RO (data_res RO fwd data noise (res_values result)) <= tcost RO (data_res RO fwd data noise (guesses ps)).
Proof. intros NW. pose proof (scipy_cost_le NW) as H. rewrite (scipy_cost_at_guess sqrtf sqrt0 fwd data noise ps W) in H.
  rewrite scipy_cost in H. destruct (xcost RO [_]) as [c|] eqn:E; [|contradiction]. cbn in H.
  apply xcost_nonneg in E. lra. Qed.
Lemma scipy_within_by_cost : s_never_worse opt -> within_bounds RO ps (res_values result) = true.
Proof. intros NW. pose proof (scipy_cost_le NW) as H. rewrite (scipy_cost_at_guess sqrtf sqrt0 fwd data noise ps W) in H.
  destruct (xcost RO (scipy_residuals RO sqrtf fwd data noise ps (res_values result))) as [c|] eqn:E; [|contradiction].
  apply (scipy_finite_within sqrtf fwd data noise ps _ c W scipy_values_length E). Qed.
Lemma scipy_fixed_point : s_zero_fixed opt -> data = fwd (guesses ps) -> res_values result = guesses ps.
Proof. intros ZF Hd. rewrite scipy_values. unfold out. rewrite ZF; [apply (unscale_all_scipy_start ps (wf_sf_nz ps W))|].
  apply xall_zero_zeros. apply (scipy_residual_zero_at_truth sqrtf sqrt0 fwd data noise ps W Hd). Qed.
End S.
End Fits.

(** * life-cycle of the strategy's scratch attributes *)
Section LifeL.
Variables Mdl Dat Sel Par Info Out Resid : Type.
Variable m_pars : Mdl -> list Par.
Variable subset : Sel -> Dat -> Dat.
Variable guess_lnp : Par -> option Z.
Variable residuals : Mdl -> Dat -> list (option Z) -> list Par -> Resid.
Variable optimise : Resid -> list Par -> option Info.
Variable mk_result : Dat -> Mdl -> list Par -> Info -> Out.
Notation fitL := (fit Mdl Dat Sel Par Info Out m_pars subset guess_lnp Resid residuals optimise mk_result).
Notation runL := (run Mdl Dat Sel Par Info Out m_pars subset guess_lnp Resid residuals optimise mk_result).
Notation sc := (scratch Mdl Dat Par Info).

(** what a fit returns does not depend on what earlier fits left behind *)
Lemma fit_history_independent (s s' : sc) ev : snd (fitL s ev) = snd (fitL s' ev).
Proof. destruct ev as [[m sel] d]. unfold fit, initialize_fit, calc_residuals.
  destruct (m_pars m) as [|p l]; [reflexivity|]. cbn. destruct (optimise _ _); reflexivity. Qed.
(** a successful fit leaves none of the four scratch attributes *)
Lemma fit_success_clean (s : sc) ev o : snd (fitL s ev) = Fitted _ o ->
  scratch_free _ _ _ _ (fst (fitL s ev)) = true.
Proof. destruct ev as [[m sel] d]. unfold fit, initialize_fit, calc_residuals.
  destruct (m_pars m) as [|p l]; [discriminate|]. cbn. destruct (optimise _ _); [reflexivity|discriminate]. Qed.
(** and its outcome equals the one of a brand-new strategy object, whatever sequence came before *)
Lemma run_history_independent evs : forall s : sc,
  snd (runL s evs) = map (fun ev => snd (fitL (fresh _ _ _ _) ev)) evs.
Proof. induction evs as [|ev evs IH]; intros s; [reflexivity|]. cbn [run map].
  destruct (fitL s ev) as [s1 o] eqn:E. specialize (IH s1). destruct (runL s1 evs) as [s2 os]. cbn in *.
  f_equal; [|exact IH]. change o with (snd (s1, o)). rewrite <- E. apply fit_history_independent. Qed.
Lemma run_app evs1 : forall (s : sc) evs2,
  runL s (evs1 ++ evs2) = let '(s1, o1) := runL s evs1 in let '(s2, o2) := runL s1 evs2 in (s2, o1 ++ o2).
Proof. induction evs1 as [|ev evs1 IH]; intros s evs2; cbn [app run].
  - destruct (runL s evs2); reflexivity.
  - destruct (fitL s ev) as [s1 o]. rewrite IH. destruct (runL s1 evs1) as [s2 o1].
    destruct (runL s2 evs2); reflexivity. Qed.
Lemma run_clean_after_success (s : sc) evs ev o : snd (fitL (fst (runL s evs)) ev) = Fitted _ o ->
  scratch_free _ _ _ _ (fst (runL s (evs ++ [ev]))) = true.
Proof. intros H. rewrite run_app. destruct (runL s evs) as [s1 o1]. cbn [fst] in H. cbn [run].
  pose proof (fit_success_clean s1 ev o H) as C. destruct (fitL s1 ev) as [s2 o2]. exact C. Qed.
End LifeL.

(** * mpfit's accept rule: the norm of the accepted residual never increases *)
Lemma lm_step_le fnorm fnorm1 prered : 0 <= fnorm -> 0 <= fnorm1 -> 0 <= prered ->
  lm_step RO fnorm (fnorm1, prered) <= fnorm /\
  (lm_accept RO fnorm fnorm1 prered = true -> fnorm1 < fnorm).
Proof. intros H0 H1 Hp. assert (A : lm_accept RO fnorm fnorm1 prered = true -> fnorm1 < fnorm).
  { unfold lm_accept, lm_ratio, actred, accept_tol, tenth. ro. intros H. apply Rleb_true in H.
    destruct (Reqb prered 0) eqn:Ep; [lra|]. apply Reqb_false in Ep. assert (Hpp : 0 < prered) by lra.
    destruct (Rltb (1 * / 10 * fnorm1) fnorm) eqn:El.
    - apply Rltb_true in El. assert (Hf : 0 < fnorm) by lra.
      assert (Ha : 0 < - (fnorm1 * / fnorm * (fnorm1 * / fnorm)) + 1).
      { apply Rnot_le_lt. intros C. assert (Hi : 0 < / prered) by (apply Rinv_0_lt_compat, Hpp).
        assert ((- (fnorm1 * / fnorm * (fnorm1 * / fnorm)) + 1) * / prered <= 0) by nra. lra. }
      set (q := fnorm1 * / fnorm) in *. assert (Hq : 0 <= q) by (unfold q; apply Rmult_le_pos; [lra|left; apply Rinv_0_lt_compat, Hf]).
      assert (Hq1 : q < 1) by nra. assert (E : fnorm1 = q * fnorm) by (unfold q; field; lra). rewrite E. nra.
    - exfalso. assert (- (1) * / prered < 0).
      { assert (0 < / prered) by (apply Rinv_0_lt_compat, Hpp). lra. } lra. }
  split; [|exact A]. unfold lm_step. cbn [fst snd]. destruct (lm_accept RO fnorm fnorm1 prered); [left; apply A; reflexivity|lra]. Qed.
Lemma lm_run_le trials : Forall (fun t => 0 <= fst t /\ 0 <= snd t) trials -> forall f0, 0 <= f0 ->
  0 <= lm_run RO f0 trials <= f0.
Proof. induction 1 as [|[f1 pr] trials [H1 H2] _ IH]; intros f0 H0; [cbn; lra|]. cbn [lm_run fold_left].
  cbn [fst snd] in H1, H2. destruct (lm_step_le f0 f1 pr H0 H1 H2) as [Hle _].
  assert (Hs : 0 <= lm_step RO f0 (f1, pr)) by (unfold lm_step; cbn [fst snd]; destruct (lm_accept RO f0 f1 pr); lra).
  specialize (IH _ Hs). unfold lm_run in IH. lra. Qed.

(** * Q execution = R object, for the arithmetic that the correspondence runs *)
Lemma unscale_QR sf x : Q2R (unscale QO sf x) = unscale RO (Q2R sf) (Q2R x).
Proof. unfold unscale. q2r. Qed.
Lemma tcost_QR l : Q2R (tcost QO l) = tcost RO (map Q2R l).
Proof. induction l as [|a l IH]; [cbn; q2r|].
  change (tcost QO (a :: l)) with (Qplus (Qmult a a) (tcost QO l)). cbn [map].
  rewrite tcost_cons, <- IH. q2r. Qed.
Lemma lt_lo_QR x b : lt_lo QO x b = lt_lo RO (Q2R x) (eb2r b).
Proof. destruct b; cbn; q2r. Qed.

(** * combined statements used by Props.v *)
Lemma constructed_wf lnf s2pi :
  (forall lo hi g u, uniform_ctor RO lnf lo hi g = Ok u -> wf (of_uniform RO u)) /\
  (forall mu sd g, gaussian_ctor RO lnf s2pi mu sd = Ok g -> wf (of_gaussian RO g)) /\
  (forall mu sd lo hi b, bgaussian_ctor RO lnf s2pi mu sd lo hi = Ok b -> wf (of_bgaussian RO b)).
Proof. split; [|split]; intros; [eapply wf_uniform|eapply wf_gaussian|eapply wf_bgaussian]; eassumption. Qed.
Lemma constructed_sf_pos lnf s2pi :
  (forall lo hi g u, uniform_ctor RO lnf lo hi g = Ok u -> 0 < fp_sf (of_uniform RO u)) /\
  (forall mu sd g, gaussian_ctor RO lnf s2pi mu sd = Ok g -> 0 < fp_sf (of_gaussian RO g)) /\
  (forall mu sd lo hi b, bgaussian_ctor RO lnf s2pi mu sd lo hi = Ok b -> 0 < fp_sf (of_bgaussian RO b)).
Proof. destruct (constructed_wf lnf s2pi) as (A & B & C).
  split; [|split]; intros; apply wf_sf; [eapply A|eapply B|eapply C]; eassumption. Qed.
Lemma scale_inverse_all ps : Forall wf ps ->
  (forall vs, length vs = length ps -> unscale_all RO ps (scale_all RO ps vs) = vs) /\
  (forall xs, length xs = length ps -> scale_all RO ps (unscale_all RO ps xs) = xs) /\
  unscale_all RO ps (pi_start (nmp_parinfo RO ps)) = guesses ps /\
  unscale_all RO ps (scipy_start RO ps) = guesses ps.
Proof. intros W. pose proof (wf_sf_nz ps W) as N. repeat split.
  - apply unscale_scale_all, N. - apply scale_unscale_all, N.
  - apply unscale_all_start, N. - apply unscale_all_scipy_start, N. Qed.
Lemma bounds_preserved_all ps : Forall wf ps -> forall xs,
  within_limits RO (nmp_parinfo RO ps) xs = within_bounds RO ps (unscale_all RO ps xs).
Proof. intros W. apply limits_iff_bounds, wf_sf_pos, W. Qed.
Lemma residual_zero_both sqrtf fwd data noise ps : sqrtf 0 = 0 -> Forall wf ps -> data = fwd (guesses ps) ->
  xall_zero RO (nmp_resid_scaled RO sqrtf fwd data noise ps (pi_start (nmp_parinfo RO ps))) = true /\
  xall_zero RO (scipy_resid_scaled RO sqrtf fwd data noise ps (scipy_start RO ps)) = true.
Proof. intros S W D. split; apply xall_zero_zeros.
  - apply nmp_residual_zero_at_truth; assumption. - apply scipy_residual_zero_at_truth; assumption. Qed.
Lemma result_lookup (iv : list (uval R)) : NoDup (res_names iv) -> forall i, (i < length iv)%nat ->
  dict_get (nth i (res_names iv) ""%string) (res_parameters iv) = Some (nth i (res_values iv) 0).
Proof. intros ND i Hi. unfold res_parameters. apply dict_get_combine; [exact ND| |].
  - unfold res_values, res_names. rewrite !map_length. reflexivity.
  - unfold res_names. rewrite map_length. exact Hi. Qed.
Lemma saved_result_reloads npixels :
  result_reloads (nmp_result_layout npixels) nmp_info_tag = true /\
  result_reloads (scipy_result_layout npixels) scipy_info_tag = true.
Proof. split; reflexivity. Qed.
Lemma lm_fnorm_monotone trials f0 : Forall (fun t => 0 <= fst t /\ 0 <= snd t) trials -> 0 <= f0 ->
  0 <= lm_run RO f0 trials <= f0 /\
  forall f1 pr, 0 <= f1 -> 0 <= pr -> lm_accept RO f0 f1 pr = true -> f1 < f0.
Proof. intros H H0. split; [apply lm_run_le; assumption|]. intros f1 pr H1 Hp. apply (lm_step_le f0 f1 pr H0 H1 Hp). Qed.
Lemma names_both sqrtf fwd data noise ps names : length names = length ps ->
  (forall opt : OptN, n_shape opt -> res_names (nmp_fit RO sqrtf opt fwd data noise ps names) = names) /\
  (forall opt : OptS, s_shape opt -> res_names (scipy_fit RO sqrtf opt fwd data noise ps names) = names).
Proof. intros H; split; [exact (nmp_names sqrtf fwd data noise ps names H)|exact (scipy_names sqrtf fwd data noise ps names H)]. Qed.
Lemma hologram_lnprob_def (fwd : list R -> list R) (lnpost : list R -> option R) (iv : list (uval R)) :
  res_hologram fwd iv = fwd (res_values iv) /\ res_lnprob lnpost iv = lnpost (res_values iv).
Proof. split; reflexivity. Qed.

(** C13 property theorems: statements only; proofs are in Lemmas.v.
    Object: the R instance of Model.v.  The optimisers [opt] (nmpfit.mpfit) and [opt_s] (scipy
    least_squares, method 'lm') are universally quantified; the clauses of their CONTRACT that a
    theorem needs ([n_shape], [n_never_worse], [n_respects_limits], [n_zero_fixed], and the
    [s_] analogues; definitions in Lemmas.v) are explicit premises.  [sqrtf 0 = 0] is the only
    fact about np.sqrt that is used.  [wf] = what the prior constructors guarantee (C14).
    NOT proved here (explored by the harness, PARTIAL): that the optimisers satisfy their
    contracts, convergence, recovery of the generating parameters. *)
From Coq Require Import String ZArith List Bool Reals QArith Qreals Lra.
From HV Require Import Common.Generic C14.Model C14.Lemmas C13.Model C13.Lemmas C13.Findings.
Import ListNotations.
Local Open Scope R_scope.

(** ** scaling *)
Theorem constructed_priors_wellformed : forall lnf s2pi,
  (forall lo hi g u, uniform_ctor RO lnf lo hi g = Ok u -> wf (of_uniform RO u)) /\
  (forall mu sd g, gaussian_ctor RO lnf s2pi mu sd = Ok g -> wf (of_gaussian RO g)) /\
  (forall mu sd lo hi b, bgaussian_ctor RO lnf s2pi mu sd lo hi = Ok b -> wf (of_bgaussian RO b)).
Proof. exact constructed_wf. Qed.
Print Assumptions constructed_priors_wellformed.

Theorem scale_factor_pos : forall lnf s2pi,
  (forall lo hi g u, uniform_ctor RO lnf lo hi g = Ok u -> 0 < fp_sf (of_uniform RO u)) /\
  (forall mu sd g, gaussian_ctor RO lnf s2pi mu sd = Ok g -> 0 < fp_sf (of_gaussian RO g)) /\
  (forall mu sd lo hi b, bgaussian_ctor RO lnf s2pi mu sd lo hi = Ok b -> 0 < fp_sf (of_bgaussian RO b)).
Proof. exact constructed_sf_pos. Qed.
Print Assumptions scale_factor_pos.

(** unscale o scale = id = scale o unscale on whole parameter vectors of any length, and both
    strategies start the optimiser at the scaled guess, which unscales to the guess *)
Theorem unscale_scale : forall ps, Forall wf ps ->
  (forall vs, length vs = length ps -> unscale_all RO ps (scale_all RO ps vs) = vs) /\
  (forall xs, length xs = length ps -> scale_all RO ps (unscale_all RO ps xs) = xs) /\
  unscale_all RO ps (pi_start (nmp_parinfo RO ps)) = guesses ps /\
  unscale_all RO ps (scipy_start RO ps) = guesses ps.
Proof. exact scale_inverse_all. Qed.
Print Assumptions unscale_scale.

(** the limits handed to mpfit hold for a scaled vector iff the prior bounds hold for the
    physical vector it stands for *)
Theorem bounds_preserved : forall ps, Forall wf ps -> forall xs,
  within_limits RO (nmp_parinfo RO ps) xs = within_bounds RO ps (unscale_all RO ps xs).
Proof. exact bounds_preserved_all. Qed.
Print Assumptions bounds_preserved.
Theorem within_bounds_means_in_support : forall ps vs, length vs = length ps ->
  (within_bounds RO ps vs = true <->
   forall i, (i < length ps)%nat -> in_support (fp_lo (nth i ps (mkP 0 1 NegInf PosInf (fun _ => None))))
                                              (fp_hi (nth i ps (mkP 0 1 NegInf PosInf (fun _ => None)))) (nth i vs 0)).
Proof. exact within_bounds_spec. Qed.
Print Assumptions within_bounds_means_in_support.

(** ** fixed point at the truth *)
Theorem residual_zero_at_truth : forall sqrtf fwd data noise ps,
  sqrtf 0 = 0 -> Forall wf ps -> data = fwd (guesses ps) ->
  xall_zero RO (nmp_resid_scaled RO sqrtf fwd data noise ps (pi_start (nmp_parinfo RO ps))) = true /\
  xall_zero RO (scipy_resid_scaled RO sqrtf fwd data noise ps (scipy_start RO ps)) = true.
Proof. exact residual_zero_both. Qed.
Print Assumptions residual_zero_at_truth.

Theorem fixed_point_at_truth_nmpfit : forall sqrtf, sqrtf 0 = 0 -> forall fwd data noise ps names,
  Forall wf ps -> length names = length ps -> forall opt : OptN, n_shape opt -> n_zero_fixed opt ->
  data = fwd (guesses ps) ->
  res_values (nmp_fit RO sqrtf opt fwd data noise ps names) = guesses ps.
Proof. exact nmp_fixed_point. Qed.
Print Assumptions fixed_point_at_truth_nmpfit.
Theorem fixed_point_at_truth_scipy : forall sqrtf, sqrtf 0 = 0 -> forall fwd data noise ps names,
  Forall wf ps -> length names = length ps -> forall opt : OptS, s_shape opt -> s_zero_fixed opt ->
  data = fwd (guesses ps) ->
  res_values (scipy_fit RO sqrtf opt fwd data noise ps names) = guesses ps.
Proof. exact scipy_fixed_point. Qed.
Print Assumptions fixed_point_at_truth_scipy.

(** ** never worse: the DATA misfit at the reported parameters <= the data misfit at the guess
    (the prior residuals vanish at the guess and squares are >= 0) *)
Theorem never_worse_nmpfit : forall sqrtf, sqrtf 0 = 0 -> forall fwd data noise ps names,
  Forall wf ps -> length names = length ps -> forall opt : OptN, n_shape opt -> n_never_worse opt ->
  tcost RO (data_res RO fwd data noise (res_values (nmp_fit RO sqrtf opt fwd data noise ps names))) <=
  tcost RO (data_res RO fwd data noise (guesses ps)).
Proof. exact nmp_never_worse. Qed.
Print Assumptions never_worse_nmpfit.
Theorem never_worse_scipy : forall sqrtf, sqrtf 0 = 0 -> forall fwd data noise ps names,
  Forall wf ps -> length names = length ps -> forall opt : OptS, s_shape opt -> s_never_worse opt ->
  tcost RO (data_res RO fwd data noise (res_values (scipy_fit RO sqrtf opt fwd data noise ps names))) <=
  tcost RO (data_res RO fwd data noise (guesses ps)).
Proof. exact scipy_never_worse. Qed.
Print Assumptions never_worse_scipy.

(** ** within bounds.  Two independent routes for nmpfit: (a) mpfit honours the limits it is
    given; (b) a point outside a prior's bounds has an infinite prior residual, so "never worse"
    alone excludes it.  (b) is the only route for the scipy strategy (no limits with 'lm'); it
    needs the z-score to be PART of the residual - see Findings.scipy_bounds_refuted. *)
Theorem within_bounds_nmpfit_by_limits : forall sqrtf fwd data noise ps names,
  Forall wf ps -> length names = length ps -> forall opt : OptN, n_shape opt -> n_respects_limits opt ->
  within_bounds RO ps (res_values (nmp_fit RO sqrtf opt fwd data noise ps names)) = true.
Proof. exact nmp_within_by_limits. Qed.
Print Assumptions within_bounds_nmpfit_by_limits.
Theorem within_bounds_nmpfit_by_cost : forall sqrtf, sqrtf 0 = 0 -> forall fwd data noise ps names,
  Forall wf ps -> length names = length ps -> forall opt : OptN, n_shape opt -> n_never_worse opt ->
  within_bounds RO ps (res_values (nmp_fit RO sqrtf opt fwd data noise ps names)) = true.
Proof. exact nmp_within_by_cost. Qed.
Print Assumptions within_bounds_nmpfit_by_cost.
Theorem within_bounds_scipy : forall sqrtf, sqrtf 0 = 0 -> forall fwd data noise ps names,
  Forall wf ps -> length names = length ps -> forall opt : OptS, s_shape opt -> s_never_worse opt ->
  within_bounds RO ps (res_values (scipy_fit RO sqrtf opt fwd data noise ps names)) = true.
Proof. exact scipy_within_by_cost. Qed.
Print Assumptions within_bounds_scipy.

(** ** result bookkeeping *)
Theorem result_names : forall sqrtf fwd data noise ps names, length names = length ps ->
  (forall opt : OptN, n_shape opt -> res_names (nmp_fit RO sqrtf opt fwd data noise ps names) = names) /\
  (forall opt : OptS, s_shape opt -> res_names (scipy_fit RO sqrtf opt fwd data noise ps names) = names).
Proof. exact names_both. Qed.
Print Assumptions result_names.
(** the reported values are the unscaled optimiser output, the reported errors the unscaled
    perror (zeros when mpfit gives none) *)
Theorem result_values_nmpfit : forall sqrtf fwd data noise ps names, length names = length ps ->
  forall opt : OptN, n_shape opt ->
  res_values (nmp_fit RO sqrtf opt fwd data noise ps names) =
  unscale_all RO ps (fst (opt (nmp_resid_scaled RO sqrtf fwd data noise ps) (nmp_parinfo RO ps))).
Proof. exact nmp_values. Qed.
Print Assumptions result_values_nmpfit.
Theorem result_values_scipy : forall sqrtf fwd data noise ps names, length names = length ps ->
  forall opt : OptS, s_shape opt ->
  res_values (scipy_fit RO sqrtf opt fwd data noise ps names) =
  unscale_all RO ps (fst (opt (scipy_resid_scaled RO sqrtf fwd data noise ps) (scipy_start RO ps))).
Proof. exact scipy_values. Qed.
Print Assumptions result_values_scipy.
Theorem result_errors_nmpfit : forall sqrtf fwd data noise ps names, length names = length ps ->
  forall opt : OptN, n_shape opt ->
  let perror := snd (opt (nmp_resid_scaled RO sqrtf fwd data noise ps) (nmp_parinfo RO ps)) in
  map uv_plus (nmp_fit RO sqrtf opt fwd data noise ps names) = nmp_errors RO ps perror /\
  map uv_minus (nmp_fit RO sqrtf opt fwd data noise ps names) = nmp_errors RO ps perror.
Proof. exact nmp_result_errors. Qed.
Print Assumptions result_errors_nmpfit.
(** FitResult.parameters[name_i] = value_i when the names are distinct (C11 proves they are) *)
Theorem result_parameters_lookup : forall iv : list (uval R), NoDup (res_names iv) ->
  forall i, (i < length iv)%nat ->
  dict_get (nth i (res_names iv) ""%string) (res_parameters iv) = Some (nth i (res_values iv) 0).
Proof. exact result_lookup. Qed.
Print Assumptions result_parameters_lookup.
(** definitional: best-fit hologram and log-probability are the forward model / posterior at the
    reported values *)
Theorem result_hologram_lnprob : forall fwd lnpost (iv : list (uval R)),
  res_hologram fwd iv = fwd (res_values iv) /\ res_lnprob lnpost iv = lnpost (res_values iv).
Proof. exact hologram_lnprob_def. Qed.
Print Assumptions result_hologram_lnprob.

(** ** the strategy object is reusable: over ANY sequence of fit calls - successful, raising
    MissingParameter, or raising inside the optimiser - every outcome equals the outcome a
    brand-new strategy would give for the same (model, pixel selection, data) *)
Theorem strategy_reusable : forall (Mdl Dat Sel Par Info Out Resid : Type) (m_pars : Mdl -> list Par)
  (subset : Sel -> Dat -> Dat) (guess_lnp : Par -> option Z)
  (residuals : Mdl -> Dat -> list (option Z) -> list Par -> Resid)
  (optimise : Resid -> list Par -> option Info) (mk_result : Dat -> Mdl -> list Par -> Info -> Out)
  (evs : list (Mdl * Sel * Dat)) (s : scratch Mdl Dat Par Info),
  snd (run Mdl Dat Sel Par Info Out m_pars subset guess_lnp Resid residuals optimise mk_result s evs) =
  map (fun ev => snd (fit Mdl Dat Sel Par Info Out m_pars subset guess_lnp Resid residuals optimise
                          mk_result (fresh Mdl Dat Par Info) ev)) evs.
Proof. exact run_history_independent. Qed.
Print Assumptions strategy_reusable.
(** after any sequence of fits ending in a successful one, _model, _parameters, _data and
    _guess_lnpriors are gone (only _minimizer_info stays: Findings.minimizer_info_stays) *)
Theorem scratch_free_after_success : forall (Mdl Dat Sel Par Info Out Resid : Type) (m_pars : Mdl -> list Par)
  (subset : Sel -> Dat -> Dat) (guess_lnp : Par -> option Z)
  (residuals : Mdl -> Dat -> list (option Z) -> list Par -> Resid)
  (optimise : Resid -> list Par -> option Info) (mk_result : Dat -> Mdl -> list Par -> Info -> Out)
  (s : scratch Mdl Dat Par Info) (evs : list (Mdl * Sel * Dat)) (ev : Mdl * Sel * Dat) (o : Out),
  snd (fit Mdl Dat Sel Par Info Out m_pars subset guess_lnp Resid residuals optimise mk_result
           (fst (run Mdl Dat Sel Par Info Out m_pars subset guess_lnp Resid residuals optimise mk_result s evs)) ev)
    = Fitted Out o ->
  scratch_free Mdl Dat Par Info
    (fst (run Mdl Dat Sel Par Info Out m_pars subset guess_lnp Resid residuals optimise mk_result s (evs ++ [ev]))) = true.
Proof. exact run_clean_after_success. Qed.
Print Assumptions scratch_free_after_success.

(** ** save -> load (the strategies' share; definitional on the fixed code) *)
Theorem saved_result_reloads : forall npixels,
  result_reloads (nmp_result_layout npixels) nmp_info_tag = true /\
  result_reloads (scipy_result_layout npixels) scipy_info_tag = true.
Proof. exact Lemmas.saved_result_reloads. Qed.
Print Assumptions saved_result_reloads.

(** ** (stretch) mpfit's accept rule: over ANY sequence of trial steps the norm of the accepted
    residual never increases, and an accepted step strictly decreases it.  Hand-read model of
    third-party code; not tied by a correspondence (see report). *)
Theorem lm_fnorm_nonincreasing : forall trials f0,
  Forall (fun t => 0 <= fst t /\ 0 <= snd t) trials -> 0 <= f0 ->
  0 <= lm_run RO f0 trials <= f0 /\
  forall f1 pr, 0 <= f1 -> 0 <= pr -> lm_accept RO f0 f1 pr = true -> f1 < f0.
Proof. exact lm_fnorm_monotone. Qed.
Print Assumptions lm_fnorm_nonincreasing.

(** ** executed Q instance = R object (arithmetic leaves of the correspondence) *)
Theorem Q_instance_agrees : (forall sf x, Q2R (unscale QO sf x) = unscale RO (Q2R sf) (Q2R x)) /\
  (forall l, Q2R (tcost QO l) = tcost RO (map Q2R l)) /\
  (forall x b, lt_lo QO x b = lt_lo RO (Q2R x) (eb2r b)).
Proof. exact (conj unscale_QR (conj tcost_QR lt_lo_QR)). Qed.
Print Assumptions Q_instance_agrees.

(** ** non-vacuity: the premises are satisfiable together.  A one-parameter problem
    (Uniform-like prior on [0,2], guess 1, identity forward model) and the optimiser that
    returns its start satisfy wf, n_shape, n_never_worse, n_respects_limits and n_zero_fixed. *)
Definition idopt : OptN := fun _ pis => (pi_start pis, None).
Definition idopt_s : OptS := fun _ x0 => (x0, map (fun _ => 0) x0).
Example premises_satisfiable :
  Forall wf [demo_par] /\ n_shape idopt /\ n_never_worse idopt /\ n_respects_limits idopt /\ n_zero_fixed idopt /\
  s_shape idopt_s /\ s_never_worse idopt_s /\ s_zero_fixed idopt_s /\ (sqrt 0 = 0).
Proof.
  split; [constructor; [apply demo_wf|constructor]|].
  split; [intros f pis; cbn; split; [unfold pi_start; apply map_length|exact I]|].
  split; [intros f pis; cbn; destruct (xcost RO (f (pi_start pis))); cbn; lra|].
  split; [intros f pis H; exact H|].
  split; [intros f pis H; reflexivity|].
  split; [intros f x0; cbn; split; [reflexivity|apply map_length]|].
  split; [intros f x0; cbn; destruct (xcost RO (f x0)); cbn; lra|].
  split; [intros f x0 H; reflexivity|apply sqrt_0]. Qed.
(** and the conclusions are not trivially true: a point outside the bounds exists *)
Example within_bounds_can_fail : within_bounds RO [demo_par] [3] = false.
Proof. cbn. unfold outside, lt_lo, gt_hi. ro. assert (Rltb 2 3 = true) as -> by (apply Rltb_true; lra).
  rewrite orb_true_r. reflexivity. Qed.
Example lm_accepts_and_rejects : lm_accept QO 1%Q (1 # 2)%Q 1%Q = true /\ lm_accept QO 1%Q 2%Q 1%Q = false.
Proof. split; vm_compute; reflexivity. Qed.

(** C13 - models of the DEFECTIVE variants found in /repo, with refutations.
    (1) scipy-prior: LeastSquaresScipyStrategy.fit.residual computes the prior z-score and then
        discards it ([np.append(residuals, zscore_prior)] without assignment); method 'lm' takes no
        bounds either, so the priors - bounds included - have no effect on the fit.
    (2) scipy-saveload: the scipy strategy handed FitResult the flattened / subset copy of the
        data and scipy's OptimizeResult, neither of which survives save -> load.
    Observation (not a defect): NmpfitStrategy keeps [_minimizer_info] after a fit, and a fit that
    raises leaves its scratch attributes behind; neither influences a later fit
    (Lemmas.run_history_independent). *)
From Coq Require Import String ZArith List Bool Reals Lra.
From HV Require Import Common.Generic C14.Model C14.Lemmas C13.Model C13.Lemmas.
Import ListNotations.
Local Open Scope R_scope.

(** (1) the residual as coded before the fix: data residuals only *)
Definition scipy_residuals_dropped (fwd : list R -> list R) (data : list R) (noise : R)
  (ps : list (fpar R)) (vals : list R) : list (xval R) := map XFin (data_res RO fwd data noise vals).
Definition scipy_resid_scaled_dropped fwd data noise ps xs :=
  scipy_residuals_dropped fwd data noise ps (unscale_all RO ps xs).

(** a bounded parameter (0 <= p <= 2, guess 1), data generated at 3: the point x = 3 has a
    strictly smaller misfit than the start, so "never worse" does not keep it inside *)
Definition demo_par : fpar R :=
  mkP 1 1 (Fin 0) (Fin 2) (fun v => if outside RO (Fin 0) (Fin 2) v then None else Some 0).
Lemma demo_wf : wf demo_par.
Proof. split; cbn.
  - lra.
  - unfold outside, lt_lo, gt_hi. ro. assert (Rltb 1 0 = false) as -> by (apply Rltb_false; lra).
    assert (Rltb 2 1 = false) as -> by (apply Rltb_false; lra). reflexivity.
  - intros v. destruct (outside RO (Fin 0) (Fin 2) v); split; congruence. Qed.

Theorem scipy_bounds_refuted : exists ps fwd data noise x,
  Forall wf ps /\
  ole (xcost RO (scipy_resid_scaled_dropped fwd data noise ps x))
      (xcost RO (scipy_resid_scaled_dropped fwd data noise ps (scipy_start RO ps))) /\
  within_bounds RO ps (unscale_all RO ps x) = false.
Proof. exists [demo_par], (fun v => v), [3], 1, [3]. split; [constructor; [apply demo_wf|constructor]|]. split.
  - cbn. ro. lra.
  - cbn. unfold outside, lt_lo, gt_hi, unscale. ro.
    assert (Rltb 2 (3 * 1) = true) as -> by (apply Rltb_true; lra). rewrite orb_true_r. reflexivity. Qed.

(** with the z-score in place the same point has infinite cost *)
Example scipy_fixed_excludes_it : forall sqrtf,
  xcost RO (scipy_resid_scaled RO sqrtf (fun v => v) [3] 1 [demo_par] [3]) = None.
Proof. intros. assert (Z : zscore RO sqrtf [demo_par] (unscale_all RO [demo_par] [3]) = XInf).
  { unfold zscore, lnprior. cbn. unfold outside, lt_lo, gt_hi, unscale. ro.
    assert (Rltb 2 (3 * 1) = true) as -> by (apply Rltb_true; lra). rewrite orb_true_r. cbn.
    match goal with |- context [match ?a with Some _ => _ | None => _ end] => destruct a end; reflexivity. }
  unfold scipy_resid_scaled. rewrite scipy_cost, Z. reflexivity. Qed.

(** (2) what the scipy strategy handed to FitResult before the fix *)
Definition scipy_result_layout_buggy (npixels : option Z) : dlayout :=
  match npixels with None => FlatNoDims | Some _ => FlatWithDims end.
Definition scipy_info_tag_buggy : info_tag := TagPythonObject.
Theorem scipy_saveload_refuted : forall npixels,
  result_reloads (scipy_result_layout_buggy npixels) scipy_info_tag_buggy = false.
Proof. intros [n|]; reflexivity. Qed.

(** observation: scratch attributes that stay *)
Example minimizer_info_stays :
  let fitU := fit unit unit unit unit unit unit (fun _ => [tt]) (fun _ d => d) (fun _ => None) unit
                  (fun _ _ _ _ => tt) (fun _ _ => Some tt) (fun _ _ _ _ => tt) in
  s_info _ _ _ _ (fst (fitU (fresh _ _ _ _) (tt, tt, tt))) = Some tt.
Proof. reflexivity. Qed.
Example failed_fit_leaves_scratch :
  let fitU := fit unit unit unit unit unit unit (fun _ => [tt]) (fun _ d => d) (fun _ => None) unit
                  (fun _ _ _ _ => tt) (fun _ _ => None) (fun _ _ _ _ => tt) in
  scratch_free _ _ _ _ (fst (fitU (fresh _ _ _ _) (tt, tt, tt))) = false.
Proof. reflexivity. Qed.

(** C13 - fitting: what HoloPy itself owns around the two least-squares optimisers.
    Executable model (no proofs here).
    Anchors: inference/nmpfit.py (NmpfitStrategy.fit / initialize_fit / calc_residuals /
    get_errors_from_minimizer / cleanup_from_fit / minimize), inference/scipyfit.py
    (LeastSquaresScipyStrategy.fit / minimize), core/prior.py (Prior.scale / unscale,
    scale_factor - imported from the C14 model), inference/result.py (FitResult.parameters,
    hologram, max_lnprob, UncertainValue), inference/third_party/nmpfit.py (mpfit: the
    accept / reject rule of one Levenberg-Marquardt trial step, lines 1294-1338).

    ORACLES (enter as arguments / Section variables, never axioms):
      [sqrtf]            np.sqrt
      [fwd]              the forward calculation model._forward (C01..C08) as a function of the
                         PHYSICAL parameter values, giving the flat list of pixel values
      [opt], [opt_s]     nmpfit.mpfit and scipy.optimize.least_squares(method='lm'): functions of
                         the residual function and the start (and limits); their CONTRACT is a
                         list of hypotheses in Lemmas.v, sampled by the harness, not proved
      the random pixel selection of make_subset_data: an input of each fit event
    Extended values: a residual entry may be +inf ([XInf]); a log-probability [None] is -inf
    (as in the C14 model). *)
From Coq Require Import ZArith List Bool String.
From HV Require Import Common.Generic C14.Model.
Import ListNotations.

Section Gen.
Context {T : Type} (O : Ops T).
Declare Scope t_scope. Delimit Scope t_scope with t.
Local Notation "x + y" := (add O x y) : t_scope. Local Notation "x * y" := (mul O x y) : t_scope.
Local Notation "x - y" := (sub O x y) : t_scope. Local Notation "- x" := (opp O x) : t_scope.
Local Notation "x / y" := (mul O x (inv O y)) : t_scope.
Local Notation "x <? y" := (ltb O x y) : t_scope. Local Notation "x <=? y" := (leb O x y) : t_scope.
Local Notation "x =? y" := (eqb O x y) : t_scope.
Local Notation "0" := (zero O) : t_scope. Local Notation "1" := (one O) : t_scope.
Local Open Scope t_scope.

(** * a fitted parameter = what the strategies read of a prior object
    guess, scale_factor, lower_bound / upper_bound (absent for a plain Gaussian: -inf / +inf
    behave identically in [minimize]), lnprob (None = -inf) *)
Record fpar := mkP { fp_guess : T; fp_sf : T; fp_lo : ebound T; fp_hi : ebound T;
                     fp_lnp : T -> option T }.

(** the three prior kinds that reach Model._parameters, from their C14 records *)
Definition of_uniform (u : uniform T) : fpar :=
  mkP (u_guess u) (u_scale u) (u_lo u) (u_hi u) (uniform_lnprob O u).
Definition of_gaussian (g : gaussian T) : fpar :=
  mkP (g_mu g) (g_scale g) NegInf PosInf (fun p => Some (gaussian_lnprob O g p)).
Definition of_bgaussian (b : bgaussian T) : fpar :=
  mkP (g_mu (bg_g b)) (g_scale (bg_g b)) (bg_lo b) (bg_hi b) (bgaussian_lnprob O b).

(** * scaling (Prior.scale / Prior.unscale are C14's [scale] / [unscale]) *)
Definition scaled_guess (p : fpar) : T := scale O (fp_sf p) (fp_guess p).
(** unscale_pars_from_minimizer: zip(parameters, values) *)
Definition unscale_all (ps : list fpar) (xs : list T) : list T :=
  map (fun px => unscale O (fp_sf (fst px)) (snd px)) (combine ps xs).
Definition scale_all (ps : list fpar) (vs : list T) : list T :=
  map (fun pv => scale O (fp_sf (fst pv)) (snd pv)) (combine ps vs).
Definition guesses (ps : list fpar) : list T := map fp_guess ps.

(** * what NmpfitStrategy.minimize hands to mpfit: one parinfo entry per parameter.
    'limited' flags; 'limits' entries: None = NaN (not limited), otherwise the scaled bound
    (an infinite bound on the "wrong" side stays infinite; prior constructors never make one) *)
Definition escale (sf : T) (b : ebound T) : ebound T :=
  match b with Fin a => Fin (scale O sf a) | NegInf => NegInf | PosInf => PosInf end.
Record parinfo := mkPI { pi_value : T; pi_lim_lo : bool; pi_lim_hi : bool;
                         pi_lo : option (ebound T); pi_hi : option (ebound T) }.
Definition nmp_parinfo1 (p : fpar) : parinfo :=
  let llo := match fp_lo p with NegInf => false | _ => true end in     (* lower_bound > -inf *)
  let lhi := match fp_hi p with PosInf => false | _ => true end in     (* upper_bound < inf *)
  mkPI (scaled_guess p) llo lhi
       (if llo then Some (escale (fp_sf p) (fp_lo p)) else None)
       (if lhi then Some (escale (fp_sf p) (fp_hi p)) else None).
Definition nmp_parinfo (ps : list fpar) : list parinfo := map nmp_parinfo1 ps.
Definition pi_start (pis : list parinfo) : list T := map pi_value pis.
(** mpfit's own reading of a parinfo entry: "x is within the limits" *)
Definition within_limits1 (pi : parinfo) (x : T) : bool :=
  negb (pi_lim_lo pi && match pi_lo pi with Some b => lt_lo O x b | None => false end) &&
  negb (pi_lim_hi pi && match pi_hi pi with Some b => gt_hi O x b | None => false end).
Definition within_limits (pis : list parinfo) (xs : list T) : bool :=
  forallb (fun px => within_limits1 (fst px) (snd px)) (combine pis xs).
(** the physical statement: every value inside its prior's bounds *)
Definition within_bounds (ps : list fpar) (vs : list T) : bool :=
  forallb (fun pv => negb (outside O (fp_lo (fst pv)) (fp_hi (fst pv)) (snd pv))) (combine ps vs).

(** what LeastSquaresScipyStrategy.minimize hands to least_squares: the scaled guesses only
    (method 'lm' takes no bounds) *)
Definition scipy_start (ps : list fpar) : list T := map scaled_guess ps.

(** * residual vectors *)
Inductive xval := XFin (x : T) | XInf.
Definition two : T := 1 + 1.

Section Resid.
Variable sqrtf : T -> T.
Variable fwd : list T -> list T.      (* forward model at PHYSICAL values, flattened *)
Variable data : list T.               (* the (flattened / subset) data *)
Variable noise : T.                   (* model._find_noise: a scalar here *)

(** Model._residuals: (forward - data) / noise *)
Definition data_res (vals : list T) : list T :=
  map (fun fd => (fst fd - snd fd) / noise) (combine (fwd vals) data).

(** NmpfitStrategy.calc_residuals: sqrt(guess_lnprior_i - lnprior_i(val_i)) per parameter *)
Definition prior_res1 (p : fpar) (v : T) : xval :=
  match fp_lnp p (fp_guess p), fp_lnp p v with
  | Some g, Some c => XFin (sqrtf (g - c))
  | _, _ => XInf                         (* sqrt(g - (-inf)) = inf *)
  end.
Definition nmp_residuals (ps : list fpar) (vals : list T) : list xval :=
  map XFin (data_res vals) ++ map (fun pv => prior_res1 (fst pv) (snd pv)) (combine ps vals).
(** the function mpfit actually calls: resid_wrapper unscales first *)
Definition nmp_resid_scaled (ps : list fpar) (xs : list T) : list xval :=
  nmp_residuals ps (unscale_all ps xs).

(** Model._lnprior: python's sum([...]) over the parameters (scatterer validity and constraints
    are C12's subject) *)
Definition lnprior (ps : list fpar) (vals : list T) : option T :=
  fold_left (oadd O) (map (fun pv => fp_lnp (fst pv) (snd pv)) (combine ps vals)) (Some 0).
(** LeastSquaresScipyStrategy.fit.residual: ONE z-score of the whole prior appended:
    sqrt(2 * -(lnprior(vals) - lnprior(guess))) *)
Definition zscore (ps : list fpar) (vals : list T) : xval :=
  match lnprior ps (guesses ps), lnprior ps vals with
  | Some g, Some l => XFin (sqrtf (two * (- (l - g))))
  | _, _ => XInf
  end.
Definition scipy_residuals (ps : list fpar) (vals : list T) : list xval :=
  map XFin (data_res vals) ++ [zscore ps vals].
Definition scipy_resid_scaled (ps : list fpar) (xs : list T) : list xval :=
  scipy_residuals ps (unscale_all ps xs).
End Resid.

(** sum of squares; None = +inf *)
Definition xcost (r : list xval) : option T :=
  fold_right (fun x acc => match x, acc with XFin v, Some a => Some (v * v + a) | _, _ => None end)
             (Some 0) r.
Definition tcost (r : list T) : T := fold_right (fun v a => v * v + a) 0 r.
Definition xall_zero (r : list xval) : bool :=
  forallb (fun x => match x with XFin v => v =? 0 | XInf => false end) r.

(** * result bookkeeping *)
Record uval := mkUV { uv_guess : T; uv_plus : T; uv_minus : T; uv_name : string }.
(** [UncertainValue(par, err, name=name) for par, err, name in zip(fitted, errors, names)] *)
Definition intervals (fitted errors : list T) (names : list string) : list uval :=
  map (fun ven => mkUV (fst (fst ven)) (snd (fst ven)) (snd (fst ven)) (snd ven))
      (combine (combine fitted errors) names).
Definition res_values (iv : list uval) : list T := map uv_guess iv.       (* FitResult._parameters *)
Definition res_names (iv : list uval) : list string := map uv_name iv.    (* FitResult._names *)
(** FitResult.parameters = {name: val for name, val in zip(_names, _parameters)}: later wins *)
Definition res_parameters (iv : list uval) : list (string * T) := combine (res_names iv) (res_values iv).
Fixpoint dict_get (k : string) (l : list (string * T)) : option T :=
  match l with
  | [] => None
  | (k', v) :: t => match dict_get k t with Some w => Some w | None => if String.eqb k k' then Some v else None end
  end.

(** FitResult.hologram = forward(self._parameters); max_lnprob = lnposterior(self._parameters) *)
Definition res_hologram (fwd : list T -> list T) (iv : list uval) : list T := fwd (res_values iv).
Definition res_lnprob (lnpost : list T -> option T) (iv : list uval) : option T := lnpost (res_values iv).

(** nmpfit: errors = unscale(perror), perror None -> zeros *)
Definition nmp_errors (ps : list fpar) (perror : option (list T)) : list T :=
  unscale_all ps (match perror with Some e => e | None => map (fun _ => 0) ps end).
Definition nmp_intervals (ps : list fpar) (names : list string) (xs : list T) (perror : option (list T)) :=
  intervals (unscale_all ps xs) (nmp_errors ps perror) names.
(** scipy: errors = unscale(noise * unit_errors) *)
Definition scipy_intervals (ps : list fpar) (names : list string) (xs : list T) (noise : T) (unit_errors : list T) :=
  intervals (unscale_all ps xs) (unscale_all ps (map (fun u => noise * u) unit_errors)) names.

(** * the whole of a fit, optimiser abstract *)
Section Fit.
Variable sqrtf : T -> T.
Variable opt : (list T -> list xval) -> list parinfo -> list T * option (list T).  (* params, perror *)
Variable opt_s : (list T -> list xval) -> list T -> list T * list T.              (* x, unit errors *)
Definition nmp_fit (fwd : list T -> list T) (data : list T) (noise : T) (ps : list fpar)
                   (names : list string) : list uval :=
  let r := opt (nmp_resid_scaled sqrtf fwd data noise ps) (nmp_parinfo ps) in
  nmp_intervals ps names (fst r) (snd r).
Definition scipy_fit (fwd : list T -> list T) (data : list T) (noise : T) (ps : list fpar)
                     (names : list string) : list uval :=
  let r := opt_s (scipy_resid_scaled sqrtf fwd data noise ps) (scipy_start ps) in
  scipy_intervals ps names (fst r) noise (snd r).
End Fit.

(** * one trial step of mpfit's Levenberg-Marquardt loop (third_party/nmpfit.py 1294-1338):
    state = the norm fnorm of the current residual; a trial has norm fnorm1 and predicted
    reduction prered. *)
Definition tenth : T := 1 / ofZ O 10.
Definition accept_tol : T := 1 / ofZ O 10000.
Definition actred (fnorm fnorm1 : T) : T :=
  if (tenth * fnorm1) <? fnorm then - ((fnorm1 / fnorm) * (fnorm1 / fnorm)) + 1 else - (1).
Definition lm_ratio (fnorm fnorm1 prered : T) : T :=
  if prered =? 0 then 0 else actred fnorm fnorm1 / prered.
Definition lm_accept (fnorm fnorm1 prered : T) : bool := accept_tol <=? lm_ratio fnorm fnorm1 prered.
Definition lm_step (fnorm : T) (trial : T * T) : T :=
  if lm_accept fnorm (fst trial) (snd trial) then fst trial else fnorm.
Definition lm_run (fnorm0 : T) (trials : list (T * T)) : T := fold_left lm_step trials fnorm0.
End Gen.

Arguments fpar T : clear implicits. Arguments parinfo T : clear implicits.
Arguments xval T : clear implicits. Arguments uval T : clear implicits.
Arguments XInf {T}. Arguments XFin {T}.

(** * life-cycle of NmpfitStrategy's scratch attributes over any sequence of fit calls.
    Types are abstract: [Mdl] a model, [Dat] data, [Sel] the pixel selection drawn by
    make_subset_data (an input of the event: it comes from numpy's global generator),
    [Info] the optimiser's report, [Out] what fit returns. *)
Section Life.
Variables Mdl Dat Sel Par Info Out : Type.
Variable m_pars : Mdl -> list Par.                        (* model._parameters *)
Variable subset : Sel -> Dat -> Dat.                      (* make_subset_data (identity when npixels is None) *)
Variable guess_lnp : Par -> option Z.                     (* par.lnprob(par.guess); the carrier is irrelevant here *)
Variable Resid : Type.
Variable residuals : Mdl -> Dat -> list (option Z) -> list Par -> Resid.   (* the closure calc_residuals builds *)
(** mpfit called with the closure and the parinfo of the parameters; None = it raised *)
Variable optimise : Resid -> list Par -> option Info.
Variable mk_result : Dat -> Mdl -> list Par -> Info -> Out.   (* FitResult(data, model, self, ..intervals, info) *)

Record scratch := mkS { s_model : option Mdl; s_pars : option (list Par); s_data : option Dat;
                        s_glp : option (list (option Z)); s_info : option Info }.
Definition fresh : scratch := mkS None None None None None.

Inductive outcome := Fitted (o : Out) | RaisedMissingParameter | RaisedInOptimiser | RaisedAttributeError.

(** initialize_fit: _model, _parameters are set BEFORE the zero-parameter test *)
Definition initialize_fit (s : scratch) (m : Mdl) (sel : Sel) (d : Dat) : scratch * bool :=
  let s1 := mkS (Some m) (Some (m_pars m)) (s_data s) (s_glp s) (s_info s) in
  match m_pars m with
  | [] => (s1, false)
  | _ => (mkS (Some m) (Some (m_pars m)) (Some (subset sel d)) (Some (map guess_lnp (m_pars m))) (s_info s), true)
  end.
(** calc_residuals reads self._model, self._data, self._guess_lnpriors, self._parameters *)
Definition calc_residuals (s : scratch) : option Resid :=
  match s_model s, s_data s, s_glp s, s_pars s with
  | Some m, Some d, Some g, Some ps => Some (residuals m d g ps)
  | _, _, _, _ => None
  end.
(** cleanup_from_fit deletes four attributes; _minimizer_info stays *)
Definition cleanup (s : scratch) : scratch := mkS None None None None (s_info s).
(** minimize(self._parameters, self.calc_residuals): "if not hasattr(self, '_parameters')" *)
Definition fit (s : scratch) (ev : Mdl * Sel * Dat) : scratch * outcome :=
  let '(m, sel, d) := ev in
  match initialize_fit s m sel d with
  | (s1, false) => (s1, RaisedMissingParameter)
  | (s1, true) =>
    match s_pars s1, calc_residuals s1 with
    | Some ps, Some r =>
      match optimise r ps with
      | None => (s1, RaisedInOptimiser)
      | Some info =>
        let s2 := mkS (s_model s1) (s_pars s1) (s_data s1) (s_glp s1) (Some info) in
        (cleanup s2, Fitted (mk_result d m ps info))
      end
    | _, _ => (s1, RaisedAttributeError)
    end
  end.
Fixpoint run (s : scratch) (evs : list (Mdl * Sel * Dat)) : scratch * list outcome :=
  match evs with
  | [] => (s, [])
  | ev :: t => let '(s1, o) := fit s ev in let '(s2, os) := run s1 t in (s2, o :: os)
  end.
Definition scratch_free (s : scratch) : bool :=
  match s_model s, s_pars s, s_data s, s_glp s with None, None, None, None => true | _, _, _, _ => false end.
End Life.

(** * save -> load of a FitResult: the two decisions that are the strategies' own
    (the file format itself is C15 / C16).
    [dlayout]: the data the result carries.  FitResult._serialize_as_dataset turns a 'flat'
    MultiIndex into a '_flat' attribute; FitResult._unserialize rebuilds it from
    data.original_dims, which only make_subset_data provides.
    [info_tag]: the yaml tag under which the optimiser's report lands in the '_kwargs'
    attribute; it is read back with yaml.safe_load, which knows HoloPy's tags and those
    registered for it, never '!!python/object/new:'. *)
Inductive dlayout := Grid | FlatNoDims | FlatWithDims.
Definition reload_layout (d : dlayout) : option dlayout :=
  match d with Grid => Some Grid | FlatWithDims => Some FlatWithDims | FlatNoDims => None end.
Inductive info_tag := TagHoloPy | TagRegistered | TagPythonObject.
Definition tag_loadable (t : info_tag) : bool := match t with TagPythonObject => false | _ => true end.
Definition result_reloads (d : dlayout) (t : info_tag) : bool :=
  match reload_layout d with Some _ => tag_loadable t | None => false end.
(** both strategies hand FitResult the data they were GIVEN (npixels or not) *)
Definition nmp_result_layout (npixels : option Z) : dlayout := Grid.
Definition nmp_info_tag : info_tag := TagHoloPy.             (* mpfit is a Serializable: !mpfit *)
Definition scipy_result_layout (npixels : option Z) : dlayout := Grid.
Definition scipy_info_tag : info_tag := TagRegistered.       (* !OptimizeResult *)

(** C02 - independent single-sphere solvers agree.  Executable model (no proofs here).

    Anchors (code that EXISTS, followed literally):
      mie_f/miescatlib.py            scatcoeffs            -> [bh_a], [bh_b], [scatcoeffs_BH]
      mielensfunctions.py            AlBlFunctions         -> [riccati], [h2n], [albl_vdH], [albl_leaves]
      mie_f/multilayer_sphere_lib.py scatcoeffs_multi      -> [yang_step], [yang_fold_vals], [yang_fold], [scatcoeffs_multi]
      scatterer/sphere.py            LayeredSphere.r       -> [layered_r]   (inverse description: [diffs])
      mie_f/mieangfuncs.f90          asm_mie_far, calc_scat_field, incfield, fieldstocart, radial_vect_to_cart,
                                     mie_fields, tmatrix_fields (cshift / reshape / -0.5)  -> [asm_far] ... [tm_field_pt]
      multisphere.py                 _asm_far (np.roll(.,-1).reshape(2,2) * -0.5)          -> [tm_pack]
      mielensfunctions.py            MieScatteringMatrix._eval                             -> [mls_perp], [mls_par]

    ORACLE LEAVES (never re-implemented; arguments of the model): psi_n, xi_n (riccati_psi_xi), D_n(mx) (lentz_dn1 +
    dn_1_down), D1/D3 (log_der_13), Q (Qratio), spherical_jn / spherical_yn, pi_n / tau_n (pisandtaus), cos/sin of the
    angles, i/kr*exp(i kr), the radial sums (asm_mie_fullradial, radial_field_mie, asmfr, ms_radial_fields, asm).

    The coefficient algebra lives in a Section over ANY carrier [F] with field-like operations ([Ops F]); it is run
    with F = Q(i) ([cx_ops QO]) and reasoned about with F = C ([cx_ops RO]) -- or any field at all. *)
From Coq Require Import ZArith QArith List Bool.
From HV Require Import Common.Generic.
Import ListNotations.

(* ------------------------------------------------------------------------------------------ *)
(** complex numbers = pairs over a generic real carrier *)
Section Cx.
Context {T : Type} (O : Ops T).
Declare Scope t_scope. Delimit Scope t_scope with t.
Local Notation "x + y" := (add O x y) : t_scope. Local Notation "x * y" := (mul O x y) : t_scope.
Local Notation "x - y" := (sub O x y) : t_scope. Local Notation "- x" := (opp O x) : t_scope.
Local Notation "x / y" := (mul O x (inv O y)) : t_scope.
Local Open Scope t_scope.

Definition cx : Type := (T * T)%type.
Definition c0 : cx := (zero O, zero O).
Definition c1 : cx := (one O, zero O).
Definition ci : cx := (zero O, one O).
Definition cofr (r : T) : cx := (r, zero O).
Definition cadd (a b : cx) : cx := (fst a + fst b, snd a + snd b).
Definition csub (a b : cx) : cx := (fst a - fst b, snd a - snd b).
Definition copp (a : cx) : cx := (- fst a, - snd a).
Definition cmul (a b : cx) : cx := (fst a * fst b - snd a * snd b, fst a * snd b + snd a * fst b).
Definition cnorm2 (a : cx) : T := fst a * fst a + snd a * snd a.
Definition cinv (a : cx) : cx := (fst a / cnorm2 a, (- snd a) / cnorm2 a).
Definition cconj (a : cx) : cx := (fst a, - snd a).
Definition ceqb (a b : cx) : bool := eqb O (fst a) (fst b) && eqb O (snd a) (snd b).
(** the complex numbers as an [Ops] structure (order tests are meaningless and constant) *)
Definition cx_ops : Ops cx :=
  mkOps cx c0 c1 cadd cmul csub copp cinv (fun _ _ => false) (fun _ _ => false) ceqb (fun z => cofr (ofZ O z)).
(** |a - b|^2 <= tol^2 * max(|b|,floor)^2 : relative closeness test used by the correspondence (run on Q) *)
Definition cclose (tol floor : T) (a b : cx) : bool :=
  let nb := cnorm2 b in let s := if ltb O nb (floor * floor) then floor * floor else nb in
  leb O (cnorm2 (csub a b)) (tol * tol * s).
End Cx.
Arguments cx T : clear implicits.

(* ------------------------------------------------------------------------------------------ *)
(** coefficient / packing / field-assembly algebra over a field-like carrier F (F = complex numbers in use) *)
Section Coef.
Context {F : Type} (K : Ops F).
Declare Scope f_scope. Delimit Scope f_scope with f.
Local Notation "x + y" := (add K x y) : f_scope. Local Notation "x * y" := (mul K x y) : f_scope.
Local Notation "x - y" := (sub K x y) : f_scope. Local Notation "- x" := (opp K x) : f_scope.
Local Notation "x / y" := (mul K x (inv K y)) : f_scope.
Local Notation "0" := (zero K) : f_scope. Local Notation "1" := (one K) : f_scope.
Local Open Scope f_scope.

(** miescatlib.scatcoeffs, order n (B&H 4.88, logarithmic-derivative form):
      an = ((Dnmx/m + n/x)*psi - psishift) / ((Dnmx/m + n/x)*xi - xishift)
      bn = ((Dnmx*m + n/x)*psi - psishift) / ((Dnmx*m + n/x)*xi - xishift)
    psi1, xi1 are the order n-1 values ("shift"), n is the order as an element of F. *)
Definition bh_a (D m x n psi psi1 xi xi1 : F) : F :=
  ((D / m + n / x) * psi - psi1) / ((D / m + n / x) * xi - xi1).
Definition bh_b (D m x n psi psi1 xi xi1 : F) : F :=
  ((D * m + n / x) * psi - psi1) / ((D * m + n / x) * xi - xi1).
Definition scatcoeffs_BH (D m x n psi psi1 xi xi1 : F) : F * F :=
  (bh_a D m x n psi psi1 xi xi1, bh_b D m x n psi psi1 xi xi1).

(** mielensfunctions.AlBlFunctions.calculate_al_bl (ratio form, as coded):
      a = (dpsi_nx*psi_x - m*psi_nx*dpsi_x) / (dpsi_nx*xi_x - m*psi_nx*dxi_x)
      b = (m*dpsi_nx*psi_x - psi_nx*dpsi_x) / (m*dpsi_nx*xi_x - psi_nx*dxi_x)
    where xi is built on h2 (spherical_h2n): the conjugate time convention of B&H's h1. *)
Definition albl_vdH (psi_nx dpsi_nx psi_x dpsi_x xi_x dxi_x m : F) : F * F :=
  ((dpsi_nx * psi_x - m * psi_nx * dpsi_x) / (dpsi_nx * xi_x - m * psi_nx * dxi_x),
   (m * dpsi_nx * psi_x - psi_nx * dpsi_x) / (m * dpsi_nx * xi_x - psi_nx * dxi_x)).
(** riccati_psin / riccati_xin: z*f(z), derivative z*f'(z) + f(z) *)
Definition riccati (z f df : F) (derivative : bool) : F := if derivative then z * df + f else z * f.

(** multilayer_sphere_lib.scatcoeffs_multi, one layer of the loop (Yang 2003 eqs 24-29).
    leaf = (D1(z1), D3(z1), D1(z2), D3(z2), Q(z1,z2)) with z1 = m_l x_{l-1}, z2 = m_l x_l *)
Definition leaf : Type := (F * F * F * F * F)%type.
Definition yang_step (mprev ml : F) (lf : leaf) (h : F * F) : F * F :=
  let '(d1z1, d3z1, d1z2, d3z2, q) := lf in
  let '(ha, hb) := h in
  let G1 := ml * ha - mprev * d1z1 in
  let G2 := ml * ha - mprev * d3z1 in
  let Gt1 := mprev * hb - ml * d1z1 in
  let Gt2 := mprev * hb - ml * d3z1 in
  ((G2 * d1z2 - q * G1 * d3z2) / (G2 - q * G1),
   (Gt2 * d1z2 - q * Gt1 * d3z2) / (Gt2 - q * Gt1)).
Fixpoint yang_fold_vals (mprev : F) (h : F * F) (ls : list (F * leaf)) : F * F :=
  match ls with
  | [] => h
  | (ml, lf) :: t => yang_fold_vals ml (yang_step mprev ml lf h) t
  end.
(** Yang eqs 14/15 as coded: the homogeneous formula with H^a, H^b in place of D_n(mx) *)
Definition yang_finish (mL xL n psi psi1 xi xi1 : F) (h : F * F) : F * F :=
  (bh_a (fst h) mL xL n psi psi1 xi xi1, bh_b (snd h) mL xL n psi psi1 xi xi1).
(** executable form: core value D1(m0 x0) and the per-layer leaves are given *)
Definition scatcoeffs_multi_vals (m0 d1core : F) (ls : list (F * leaf)) (mL xL n psi psi1 xi xi1 : F) : F * F :=
  yang_finish mL xL n psi psi1 xi xi1 (yang_fold_vals m0 (d1core, d1core) ls).
(** the arguments at which the code evaluates its special functions: z0 = m0 x0, then (m_l x_{l-1}, m_l x_l) *)
Fixpoint yang_args_from (xprev : F) (layers : list (F * F)) : list (F * F) :=
  match layers with [] => [] | (m, x) :: t => (m * xprev, m * x) :: yang_args_from x t end.
Definition yang_args (layers : list (F * F)) : F * list (F * F) :=
  match layers with [] => (0, []) | (m0, x0) :: t => (m0 * x0, yang_args_from x0 t) end.

(** the same recursion with the special functions as ORACLE FUNCTIONS of their argument (object of the theorems):
    layers = [(m_1,x_1); ... ; (m_L,x_L)] innermost first *)
Section Oracle.
Variables (D1 D3 : F -> F) (Qr : F -> F -> F).
Definition leaf_of (ml xprev xl : F) : leaf :=
  (D1 (ml * xprev), D3 (ml * xprev), D1 (ml * xl), D3 (ml * xl), Qr (ml * xprev) (ml * xl)).
Fixpoint leaves_from (xprev : F) (layers : list (F * F)) : list (F * leaf) :=
  match layers with [] => [] | (m, x) :: t => (m, leaf_of m xprev x) :: leaves_from x t end.
Definition yang_fold (layers : list (F * F)) : F * F :=
  match layers with
  | [] => (0, 0)
  | (m0, x0) :: t => yang_fold_vals m0 (D1 (m0 * x0), D1 (m0 * x0)) (leaves_from x0 t)
  end.
Definition scatcoeffs_multi (layers : list (F * F)) (n psi psi1 xi xi1 : F) : F * F :=
  let '(mL, xL) := last layers (1, 1) in
  yang_finish mL xL n psi psi1 xi xi1 (yang_fold layers).
End Oracle.

(** LayeredSphere.r : r[0] = t[0]; r[i+1] = r[i] + t[i+1]; and the inverse description (outer radii -> thicknesses) *)
Fixpoint cumsum_from (acc : F) (ts : list F) : list F :=
  match ts with [] => [] | t :: r => (acc + t) :: cumsum_from (acc + t) r end.
Definition layered_r (ts : list F) : list F :=
  match ts with [] => [] | t0 :: r => t0 :: cumsum_from t0 r end.
Fixpoint diffs_from (prev : F) (rs : list F) : list F :=
  match rs with [] => [] | r :: t => (r - prev) :: diffs_from r t end.
Definition diffs (rs : list F) : list F :=
  match rs with [] => [] | r0 :: t => r0 :: diffs_from r0 t end.

(** ---- amplitude scattering matrix: sums and packing ---- *)
Definition mat22 : Type := ((F * F) * (F * F))%type.
Definition cshift1 {A} (l : list A) : list A := match l with [] => [] | h :: t => t ++ [h] end.
(** reshape(v, (/2,2/), order=(/2,1/)) and numpy .reshape((2,2)): row-major fill *)
Definition reshape22 (l : list F) : mat22 := ((nth 0 l 0, nth 1 l 0), (nth 2 l 0, nth 3 l 0)).
Definition mscale (s : F) (M : mat22) : mat22 :=
  let '((a, b), (c, d)) := M in ((a * s, b * s), (c * s, d * s)).
Definition two : F := 1 + 1.
(** prefactor = (2n+1)/(n(n+1)) *)
Definition pref (n : F) : F := (two * n + 1) / (n * (n + 1)).
(** asm_mie_far main loop: asm(1) += pref*(a*pi + b*tau); asm(2) += pref*(a*tau + b*pi), n = 1.. *)
Fixpoint asm_sums (n : Z) (ab : list (F * F)) (pt : list (F * F)) (acc : F * F) : F * F :=
  match ab, pt with
  | (a, b) :: ab', (p, t) :: pt' =>
      let c := pref (ofZ K n) in
      asm_sums (n + 1) ab' pt' (fst acc + c * (a * p + b * t), snd acc + c * (a * t + b * p))
  | _, _ => acc
  end.
Definition asm_far (ab : list (F * F)) (pt : list (F * F)) : mat22 :=
  let s := asm_sums 1 ab pt (0, 0) in
  reshape22 (cshift1 [fst s; snd s; 0; 0]).
(** textbook (B&H 4.74) S1 = sum pref (a pi + b tau), S2 = sum pref (a tau + b pi) *)
Fixpoint S1sum (n : Z) (ab : list (F * F)) (pt : list (F * F)) : F :=
  match ab, pt with
  | (a, b) :: ab', (p, t) :: pt' => pref (ofZ K n) * (a * p + b * t) + S1sum (n + 1) ab' pt'
  | _, _ => 0 end.
Fixpoint S2sum (n : Z) (ab : list (F * F)) (pt : list (F * F)) : F :=
  match ab, pt with
  | (a, b) :: ab', (p, t) :: pt' => pref (ofZ K n) * (a * t + b * p) + S2sum (n + 1) ab' pt'
  | _, _ => 0 end.
(** MieScatteringMatrix._eval: perpendicular = sum coeffs*(b*tau + a*pi), parallel = sum coeffs*(a*tau + b*pi) *)
Fixpoint mls_perp (n : Z) (ab : list (F * F)) (pt : list (F * F)) : F :=
  match ab, pt with
  | (a, b) :: ab', (p, t) :: pt' => pref (ofZ K n) * (b * t + a * p) + mls_perp (n + 1) ab' pt'
  | _, _ => 0 end.
Fixpoint mls_par (n : Z) (ab : list (F * F)) (pt : list (F * F)) : F :=
  match ab, pt with
  | (a, b) :: ab', (p, t) :: pt' => pref (ofZ K n) * (a * t + b * p) + mls_par (n + 1) ab' pt'
  | _, _ => 0 end.

(** tmatrix_fields / multisphere._asm_far: cshift(ascatmat,1) (= np.roll(.,-1)), row-major 2x2, times -0.5 *)
Definition mhalf : F := - (1 / two).
Definition tm_pack (sa : list F) : mat22 := mscale mhalf (reshape22 (cshift1 sa)).

(** ---- field assembly (mieangfuncs.f90) ---- *)
Definition vec3 : Type := (F * F * F)%type.
Definition vadd3 (a b : vec3) : vec3 :=
  let '(a1, a2, a3) := a in let '(b1, b2, b3) := b in (a1 + b1, a2 + b2, a3 + b3).
(** incfield: components of the incident polarisation relative to the scattering plane *)
Definition incfield (ex ey cp sp : F) : F * F := (ex * cp + ey * sp, ex * sp - ey * cp).
(** calc_scat_field: prefactor * matmul(ascatm, einc_sph) * (/1,-1/) *)
Definition calc_scat_field (pf : F) (M : mat22) (e : F * F) : F * F :=
  let '((m11, m12), (m21, m22)) := M in
  (pf * (m11 * fst e + m12 * snd e) * 1, pf * (m21 * fst e + m22 * snd e) * (- (1))).
Definition fieldstocart (s : F * F) (ct st cp sp : F) : vec3 :=
  (ct * cp * fst s - sp * snd s, ct * sp * fst s + cp * snd s, (- (1)) * st * fst s).
Definition radial_vect_to_cart (ar ct st cp sp : F) : vec3 := (st * cp * ar, st * sp * ar, ct * ar).
(** mie_fields, one point.  [Mfar], [Mfull] are the values of asm_mie_far / asm_mie_fullradial, [erad] of
    radial_field_mie, [pf] = i/kr*exp(i kr) *)
Definition mie_field_pt (rad rad_dep : bool) (Mfar Mfull : mat22) (erad pf ex ey ct st cp sp : F) : vec3 :=
  let M := if rad_dep then Mfull else Mfar in
  let E := fieldstocart (calc_scat_field pf M (incfield ex ey cp sp)) ct st cp sp in
  if rad then vadd3 E (radial_vect_to_cart (erad * fst (incfield ex ey cp sp)) ct st cp sp) else E.
(** tmatrix_fields, one point.  [sa] = asmfr(...) (4 entries), [ra] = ms_radial_fields(...) (2 entries) *)
Definition tm_field_pt (rad : bool) (sa : list F) (ra : F * F) (pf ex ey ct st cp sp : F) : vec3 :=
  let E := fieldstocart (calc_scat_field pf (tm_pack sa) (incfield ex ey cp sp)) ct st cp sp in
  let e := incfield ex ey cp sp in
  if rad then vadd3 E (radial_vect_to_cart ((fst e * fst ra + snd e * snd ra) * mhalf) ct st cp sp) else E.
End Coef.
Arguments leaf F : clear implicits. Arguments mat22 F : clear implicits. Arguments vec3 F : clear implicits.

(* ------------------------------------------------------------------------------------------ *)
(** AlBlFunctions on its scipy leaves: j = spherical_jn, y = spherical_yn (values and derivatives) *)
Section AlBl.
Context {T : Type} (O : Ops T).
Let K := cx_ops O.
(** spherical_h2n = jn - 1j*yn *)
Definition h2n (j y : cx T) : cx T := csub O j (cmul O (ci O) y).
(** calculate_al_bl(index_ratio = m, size_parameter = x, l) given the spherical Bessel values at m*x and x.
    Returns also the argument m*x at which the first two leaves must have been evaluated. *)
Definition albl_leaves (m x jmx djmx jx djx yx dyx : cx T) : (cx T * cx T) * cx T :=
  let z := mul K m x in
  let psi_nx := riccati K z jmx djmx false in
  let dpsi_nx := riccati K z jmx djmx true in
  let psi_x := riccati K x jx djx false in
  let dpsi_x := riccati K x jx djx true in
  let xi_x := riccati K x (h2n jx yx) (h2n djx dyx) false in
  let dxi_x := riccati K x (h2n jx yx) (h2n djx dyx) true in
  (albl_vdH K psi_nx dpsi_nx psi_x dpsi_x xi_x dxi_x m, z).
End AlBl.

(* ------------------------------------------------------------------------------------------ *)
(** comparison helpers for the generated correspondence files (Q(i)) *)
Section Cmp.
Context {T : Type} (O : Ops T).
Definition pclose (tol floor : T) (a b : cx T * cx T) : bool :=
  cclose O tol floor (fst a) (fst b) && cclose O tol floor (snd a) (snd b).
Definition mclose (tol floor : T) (A B : mat22 (cx T)) : bool :=
  pclose tol floor (fst A) (fst B) && pclose tol floor (snd A) (snd B).
Definition v3close (tol floor : T) (a b : vec3 (cx T)) : bool :=
  let '(a1, a2, a3) := a in let '(b1, b2, b3) := b in
  cclose O tol floor a1 b1 && cclose O tol floor a2 b2 && cclose O tol floor a3 b3.
Fixpoint args_close (tol floor : T) (a b : list (cx T * cx T)) : bool :=
  match a, b with
  | [], [] => true
  | x :: a', y :: b' => pclose tol floor x y && args_close tol floor a' b'
  | _, _ => false
  end.
End Cmp.

(* ------------------------------------------------------------------------------------------ *)
(** EVALUATOR arithmetic for the correspondence check.  Exact rational evaluation of the recursions explodes
    (every division multiplies denominators; depth ~25 for 4 layers), so the generic definitions above are run
    over [QF]: rationals rounded (toward -oo on the mantissa) to [prec] significant bits after every operation --
    a binary floating-point arithmetic with 2^-128 relative error per operation, inside Coq, with nothing postulated.
    The exact instance [QO] is still used where the comparison is exact (LayeredSphere.r). *)
Definition prec : Z := 128.
Definition qround (q : Q) : Q :=
  let n := Qnum q in let d := Zpos (Qden q) in
  if (n =? 0)%Z then 0%Q else
  let ld := Z.log2 d in
  let e := (Z.log2 (Z.abs n) - ld)%Z in
  let s := (prec - e)%Z in
  if (Z.shiftl 1 ld =? d)%Z then
    (* denominator is a power of two (always, except right after an inversion): pure shifts *)
    if (0 <=? s)%Z then Qmake (Z.shiftl n (s - ld)) (Z.to_pos (Z.shiftl 1 s))
    else Qmake (Z.shiftl (Z.shiftl n (s - ld)) (- s)) 1
  else
    if (0 <=? s)%Z then Qmake ((Z.shiftl n s) / d) (Z.to_pos (Z.shiftl 1 s))
    else Qmake (Z.shiftl (n / (Z.shiftl d (- s))) (- s)) 1.
Definition QF : Ops Q :=
  mkOps Q 0%Q 1%Q (fun a b => qround (a + b)) (fun a b => qround (a * b)) (fun a b => qround (a - b)) Qopp
        (fun a => qround (/ a)) Qltb Qle_bool Qeq_bool (fun z => inject_Z z).

(** C02 property theorems: statements only; proofs are in Lemmas.v.

    WHAT IS PROVED: the algebraic skeleton shared by the independently written single-sphere solvers -- the
    coefficient formulas, the layered recursion's reductions, the thickness/radius descriptions, the amplitude-matrix
    packing and the field assembly.  The theorems named [..._any_field] hold over EVERY carrier whose operations
    satisfy [field_theory] (hence over C, [complex_numbers_form_a_field]); they are closed under the global context.
    WHAT IS NOT PROVED (explored numerically by harness/props/c02.py, never called a proof): that the truncated
    series, the continued fraction / recursions for D_n, psi_n, xi_n, Q_n, the multi-sphere and T-matrix solvers
    actually compute numbers that agree.  The special functions are ORACLES here: they enter as variables constrained
    only by the relations written in each statement (D = psi'/psi, f'_n = f_{n-1} - n f_n/x, Q a ratio of ratios,
    D1 <> D3). *)
From Coq Require Import ZArith List Bool Reals QArith Qreals Lra Field.
From HV Require Import Common.Generic C02.Model C02.Lemmas.
Import ListNotations.

Definition is_field {F} (K : Ops F) : Prop :=
  field_theory (zero K) (one K) (add K) (mul K) (sub K) (opp K) (fun a b => mul K a (inv K b)) (inv K) (@eq F).

(* the complex numbers (pairs over R with the model's cadd/cmul/cinv) are such a field *)
Theorem complex_numbers_form_a_field : is_field CRO.
Proof. exact CR_field. Qed.
Print Assumptions complex_numbers_form_a_field.

(* miescatlib.scatcoeffs (B&H log-derivative form) = AlBlFunctions.calculate_al_bl (ratio form) as formulas:
   for all n, m, x (any field elements) once D = psi'(mx)/psi(mx) and the derivatives at x obey
   f'_n = f_{n-1} - n f_n / x, with the code's own denominators non-zero *)
Theorem bh_eq_vdh_any_field : forall F (K : Ops F), is_field K ->
  forall D m x n psi psi1 xi xi1 psimx dpsimx : F,
  m <> zero K -> x <> zero K -> psimx <> zero K -> D = mul K dpsimx (inv K psimx) ->
  sub K (mul K (add K (mul K D (inv K m)) (mul K n (inv K x))) xi) xi1 <> zero K ->
  sub K (mul K (add K (mul K D m) (mul K n (inv K x))) xi) xi1 <> zero K ->
  albl_vdH K psimx dpsimx psi (sub K psi1 (mul K (mul K n psi) (inv K x)))
             xi (sub K xi1 (mul K (mul K n xi) (inv K x))) m
  = scatcoeffs_BH K D m x n psi psi1 xi xi1.
Proof. exact (@bh_eq_vdh_any). Qed.
Print Assumptions bh_eq_vdh_any_field.

(* ... and with the time-convention map made explicit (B&H: h1, exp(-iwt); lens code: h2): the lens-code formula
   on the conjugated complex inputs returns the conjugates of the miescatlib coefficients *)
Theorem bh_eq_vdh : forall (D m xi xi1 psimx dpsimx : C) (x n psi psi1 : R),
  let X := cofr RO x in let N := cofr RO n in let Psi := cofr RO psi in let Psi1 := cofr RO psi1 in
  m <> zero CRO -> x <> 0%R -> psimx <> zero CRO -> D = mul CRO dpsimx (inv CRO psimx) ->
  sub CRO (mul CRO (add CRO (mul CRO D (inv CRO m)) (mul CRO N (inv CRO X))) xi) xi1 <> zero CRO ->
  sub CRO (mul CRO (add CRO (mul CRO D m) (mul CRO N (inv CRO X))) xi) xi1 <> zero CRO ->
  albl_vdH CRO (cconj RO psimx) (cconj RO dpsimx)
           Psi (sub CRO Psi1 (mul CRO (mul CRO N Psi) (inv CRO X)))
           (cconj RO xi) (sub CRO (cconj RO xi1) (mul CRO (mul CRO N (cconj RO xi)) (inv CRO X)))
           (cconj RO m)
  = conj2 (scatcoeffs_BH CRO D m X N Psi Psi1 xi xi1).
Proof. exact bh_eq_vdh_conj. Qed.
Print Assumptions bh_eq_vdh.

(* scatcoeffs_multi, EVERY number of layers: equal layer indices => H^a = H^b = D1(m x_L) ... *)
Theorem yang_uniform_collapse : forall F (K : Ops F), is_field K ->
  forall (D1 D3 : F -> F) (Qr : F -> F -> F) m x0 xs,
  m <> zero K -> (forall z, D1 z <> D3 z) ->
  yang_fold K D1 D3 Qr (map (fun x => (m, x)) (x0 :: xs))
  = (D1 (mul K m (last xs x0)), D1 (mul K m (last xs x0))).
Proof. exact (@yang_uniform_collapse_any). Qed.
Print Assumptions yang_uniform_collapse.

(* ... i.e. the layered code returns exactly the homogeneous-sphere coefficients of (m, outer radius) *)
Theorem layered_uniform_is_homogeneous : forall F (K : Ops F), is_field K ->
  forall (D1 D3 : F -> F) (Qr : F -> F -> F) m x0 xs n psi psi1 xi xi1,
  m <> zero K -> (forall z, D1 z <> D3 z) ->
  scatcoeffs_multi K D1 D3 Qr (map (fun x => (m, x)) (x0 :: xs)) n psi psi1 xi xi1
  = scatcoeffs_BH K (D1 (mul K m (last xs x0))) m (last xs x0) n psi psi1 xi xi1.
Proof. exact (@multi_uniform_is_homogeneous_any). Qed.
Print Assumptions layered_uniform_is_homogeneous.

(* adjacent equal-index layers merge, anywhere above the core, whatever lies below ([(m0,x0) :: l1]) and above
   ([post]); Q multiplicative along the chain, D1 <> D3 at the removed interface, the code's denominators non-zero *)
Theorem yang_merge_equal_adjacent : forall F (K : Ops F), is_field K ->
  forall (D1 D3 : F -> F) (Qr : F -> F -> F) m0 x0 l1 m x1 x2 post,
  let inner := (m0, x0) :: l1 in
  let mp := fst (last l1 (m0, x0)) in let xp := snd (last l1 (m0, x0)) in
  let ha := fst (yang_fold K D1 D3 Qr inner) in let hb := snd (yang_fold K D1 D3 Qr inner) in
  m <> zero K -> D1 (mul K m x1) <> D3 (mul K m x1) ->
  mul K (Qr (mul K m xp) (mul K m x1)) (Qr (mul K m x1) (mul K m x2)) = Qr (mul K m xp) (mul K m x2) ->
  sub K (sub K (mul K m ha) (mul K mp (D3 (mul K m xp))))
        (mul K (Qr (mul K m xp) (mul K m x1)) (sub K (mul K m ha) (mul K mp (D1 (mul K m xp))))) <> zero K ->
  sub K (sub K (mul K mp hb) (mul K m (D3 (mul K m xp))))
        (mul K (Qr (mul K m xp) (mul K m x1)) (sub K (mul K mp hb) (mul K m (D1 (mul K m xp))))) <> zero K ->
  sub K (sub K (mul K m ha) (mul K mp (D3 (mul K m xp))))
        (mul K (Qr (mul K m xp) (mul K m x2)) (sub K (mul K m ha) (mul K mp (D1 (mul K m xp))))) <> zero K ->
  sub K (sub K (mul K mp hb) (mul K m (D3 (mul K m xp))))
        (mul K (Qr (mul K m xp) (mul K m x2)) (sub K (mul K mp hb) (mul K m (D1 (mul K m xp))))) <> zero K ->
  yang_fold K D1 D3 Qr (inner ++ (m, x1) :: (m, x2) :: post)
  = yang_fold K D1 D3 Qr (inner ++ (m, x2) :: post).
Proof. exact (@yang_merge_equal_adjacent_any). Qed.
Print Assumptions yang_merge_equal_adjacent.

(* a first layer with the core's index is absorbed into the core *)
Theorem yang_merge_into_core : forall F (K : Ops F), is_field K ->
  forall (D1 D3 : F -> F) (Qr : F -> F -> F) m x0 x1 post,
  m <> zero K -> D1 (mul K m x0) <> D3 (mul K m x0) ->
  yang_fold K D1 D3 Qr ((m, x0) :: (m, x1) :: post) = yang_fold K D1 D3 Qr ((m, x1) :: post).
Proof. exact (@yang_merge_core_any). Qed.
Print Assumptions yang_merge_into_core.

(* an outermost layer with the medium's index (relative index 1) leaves the coefficients unchanged, for every
   inner layer list; D1 = psi'/psi, D3 = xi'/xi, Q = (psi/xi)(z1)/(psi/xi)(z2) are hypotheses on the oracles *)
Theorem yang_outer_medium : forall F (K : Ops F), is_field K ->
  forall (D1 D3 : F -> F) (Qr : F -> F -> F) m0 x0 l1 x n psip psi1p xip xi1p psi psi1 xi xi1,
  let inner := (m0, x0) :: l1 in
  let mp := fst (last l1 (m0, x0)) in let xp := snd (last l1 (m0, x0)) in
  let ha := fst (yang_fold K D1 D3 Qr inner) in let hb := snd (yang_fold K D1 D3 Qr inner) in
  let dv a b := mul K a (inv K b) in
  mp <> zero K -> xp <> zero K -> x <> zero K -> psip <> zero K -> xip <> zero K -> psi <> zero K -> xi <> zero K ->
  D1 (mul K (one K) xp) = dv (sub K psi1p (dv (mul K n psip) xp)) psip ->
  D3 (mul K (one K) xp) = dv (sub K xi1p (dv (mul K n xip) xp)) xip ->
  D1 (mul K (one K) x) = dv (sub K psi1 (dv (mul K n psi) x)) psi ->
  D3 (mul K (one K) x) = dv (sub K xi1 (dv (mul K n xi) x)) xi ->
  Qr (mul K (one K) xp) (mul K (one K) x) = dv (dv psip xip) (dv psi xi) ->
  D1 (mul K (one K) x) <> D3 (mul K (one K) x) ->
  sub K (sub K (mul K (one K) ha) (mul K mp (D3 (mul K (one K) xp))))
        (mul K (Qr (mul K (one K) xp) (mul K (one K) x))
               (sub K (mul K (one K) ha) (mul K mp (D1 (mul K (one K) xp))))) <> zero K ->
  sub K (sub K (mul K mp hb) (mul K (one K) (D3 (mul K (one K) xp))))
        (mul K (Qr (mul K (one K) xp) (mul K (one K) x))
               (sub K (mul K mp hb) (mul K (one K) (D1 (mul K (one K) xp))))) <> zero K ->
  sub K (mul K (add K (dv ha mp) (dv n xp)) xip) xi1p <> zero K ->
  sub K (mul K (add K (mul K hb mp) (dv n xp)) xip) xi1p <> zero K ->
  scatcoeffs_multi K D1 D3 Qr (inner ++ [(one K, x)]) n psi psi1 xi xi1
  = scatcoeffs_multi K D1 D3 Qr inner n psip psi1p xip xi1p.
Proof. exact (@multi_outer_medium_any). Qed.
Print Assumptions yang_outer_medium.

(* LayeredSphere: thicknesses -> outer radii (the .r property) and radii -> thicknesses are mutually inverse,
   for every layer list *)
Theorem cumsum_diff : forall F (K : Ops F), is_field K ->
  (forall ts, diffs K (layered_r K ts) = ts) /\ (forall rs, layered_r K (diffs K rs) = rs).
Proof. exact (@cumsum_diff_any). Qed.
Print Assumptions cumsum_diff.

(* asm_mie_far: accumulate, cshift by one, row-major 2x2 = [[S2,0],[0,S1]] with the B&H series, every order *)
Theorem asm_cshift : forall F (K : Ops F), is_field K -> forall ab pt,
  asm_far K ab pt = ((S2sum K 1 ab pt, zero K), (zero K, S1sum K 1 ab pt)).
Proof. exact (@asm_cshift_any). Qed.
Print Assumptions asm_cshift.

(* the lens code's S_perp / S_par sums are the same two series *)
Theorem mielens_sums_are_S1_S2 : forall F (K : Ops F), is_field K -> forall ab n pt,
  mls_perp K n ab pt = S1sum K n ab pt /\ mls_par K n ab pt = S2sum K n ab pt.
Proof. exact (@mls_is_S). Qed.
Print Assumptions mielens_sums_are_S1_S2.

(* pi_n, tau_n real: conjugated coefficients (the other time convention) give conjugated S1, S2 *)
Theorem smatrix_time_convention : forall ab n pt,
  S1sum CRO n (conj_ab ab) (real_pt pt) = cconj RO (S1sum CRO n ab (real_pt pt)) /\
  S2sum CRO n (conj_ab ab) (real_pt pt) = cconj RO (S2sum CRO n ab (real_pt pt)).
Proof. exact S_conj. Qed.
Print Assumptions smatrix_time_convention.

(* multi-sphere packing: cshift(asmfr,1) / np.roll(asm,-1), row-major, times -1/2 *)
Theorem tm_pack_entries : forall F (K : Ops F) s1 s2 s3 s4,
  tm_pack K [s1; s2; s3; s4]
  = ((mul K s2 (mhalf K), mul K s3 (mhalf K)), (mul K s4 (mhalf K), mul K s1 (mhalf K))).
Proof. exact (@tm_pack_entries_any). Qed.
Print Assumptions tm_pack_entries.

(* calc_scat_field on [[S2,0],[0,S1]]: E_theta = pf S2 E_par, E_phi = - pf S1 E_perp (B&H 4.75) *)
Theorem scat_field_diag : forall F (K : Ops F), is_field K -> forall pf S1 S2 ex ey cp sp,
  calc_scat_field K pf ((S2, zero K), (zero K, S1)) (incfield K ex ey cp sp)
  = (mul K (mul K pf S2) (add K (mul K ex cp) (mul K ey sp)),
     opp K (mul K (mul K pf S1) (sub K (mul K ex sp) (mul K ey cp)))).
Proof. exact (@scat_field_diag_any). Qed.
Print Assumptions scat_field_diag.

(* fieldstocart output is transverse; radial_vect_to_cart output is a_r along r_hat *)
Theorem field_transverse : forall F (K : Ops F), is_field K -> forall s ct st cp sp,
  add K (mul K ct ct) (mul K st st) = one K -> add K (mul K cp cp) (mul K sp sp) = one K ->
  let '(e1, e2, e3) := fieldstocart K s ct st cp sp in
  add K (add K (mul K (mul K st cp) e1) (mul K (mul K st sp) e2)) (mul K ct e3) = zero K.
Proof. exact (@fieldstocart_transverse_any). Qed.
Print Assumptions field_transverse.
Theorem field_radial : forall F (K : Ops F), is_field K -> forall ar ct st cp sp,
  add K (mul K ct ct) (mul K st st) = one K -> add K (mul K cp cp) (mul K sp sp) = one K ->
  let '(e1, e2, e3) := radial_vect_to_cart K ar ct st cp sp in
  add K (add K (mul K (mul K st cp) e1) (mul K (mul K st sp) e2)) (mul K ct e3) = ar.
Proof. exact (@radial_vect_any). Qed.
Print Assumptions field_radial.

(* the Q(i) instance executed by the correspondence check computes the same number as the C instance *)
Theorem scatcoeff_Q_agrees_C : forall D m x n psi psi1 xi xi1,
  ~ (cnorm2 QO m == 0)%Q -> ~ (cnorm2 QO x == 0)%Q ->
  ~ (cnorm2 QO (sub CQO (mul CQO (add CQO (mul CQO D (inv CQO m)) (mul CQO n (inv CQO x))) xi) xi1) == 0)%Q ->
  ~ (cnorm2 QO (sub CQO (mul CQO (add CQO (mul CQO D m) (mul CQO n (inv CQO x))) xi) xi1) == 0)%Q ->
  Q2C (bh_a CQO D m x n psi psi1 xi xi1)
  = bh_a CRO (Q2C D) (Q2C m) (Q2C x) (Q2C n) (Q2C psi) (Q2C psi1) (Q2C xi) (Q2C xi1) /\
  Q2C (bh_b CQO D m x n psi psi1 xi xi1)
  = bh_b CRO (Q2C D) (Q2C m) (Q2C x) (Q2C n) (Q2C psi) (Q2C psi1) (Q2C xi) (Q2C xi1).
Proof. intros. split; [apply bh_a_Q_C|apply bh_b_Q_C]; assumption. Qed.
Print Assumptions scatcoeff_Q_agrees_C.

(** ---- non-vacuity: the hypotheses are satisfiable (over R, a field by [R_field]) ---- *)
Local Open Scope R_scope.
Example fields_exist : is_field RO /\ is_field CRO.
Proof. split; [exact R_field|exact CR_field]. Qed.
(* bh_eq_vdh: m = 2, x = 1, psi(mx) = psi'(mx) = 1 (D = 1), n = 1, xi = 1, xi1 = 0: denominators 3/2 and 3 *)
Example bh_eq_vdh_hyps_sat : exists D m x n xi xi1 psimx dpsimx : R,
  m <> zero RO /\ x <> zero RO /\ psimx <> zero RO /\ D = mul RO dpsimx (inv RO psimx) /\
  sub RO (mul RO (add RO (mul RO D (inv RO m)) (mul RO n (inv RO x))) xi) xi1 <> zero RO /\
  sub RO (mul RO (add RO (mul RO D m) (mul RO n (inv RO x))) xi) xi1 <> zero RO.
Proof. exists (1 * / 1), 2, 1, 1, 1, 0, 1, 1. cbn [zero one add mul sub opp inv RO]. repeat split; try lra. Qed.
(* yang: D1 = 0, D3 = 1, Q = 1 (multiplicative), all indices 1: every denominator is -1 *)
Example yang_hyps_sat : exists (D1 D3 : R -> R) (Qr : R -> R -> R) (m : R),
  m <> zero RO /\ (forall z, D1 z <> D3 z) /\ (forall a b c, mul RO (Qr a b) (Qr b c) = Qr a c) /\
  (forall ha, sub RO (sub RO (mul RO m ha) (mul RO m (D3 0))) (mul RO (Qr 0 0) (sub RO (mul RO m ha) (mul RO m (D1 0)))) <> zero RO).
Proof. exists (fun _ => 0), (fun _ => 1), (fun _ _ => 1), 1. cbn [zero one add mul sub opp inv RO].
  repeat split; intros; lra. Qed.
(* outer medium: n = 0, psi = xi = 1 at both radii, psi_{n-1} = 0, xi_{n-1} = 1 (so D1 = 0, D3 = 1, Q = 1), one inner layer *)
Example outer_medium_hyps_sat :
  let D1 := fun _ : R => 0 in let D3 := fun _ : R => 1 in let Qr := fun _ _ : R => 1 in
  let ha := fst (yang_fold RO D1 D3 Qr [(1, 1)]) in let hb := snd (yang_fold RO D1 D3 Qr [(1, 1)]) in
  D1 (1 * 1) = (0 - 0 * 1 / 1) / 1 /\ D3 (1 * 1) = (1 - 0 * 1 / 1) / 1 /\ Qr (1 * 1) (1 * 1) = (1 / 1) / (1 / 1) /\
  D1 (1 * 1) <> D3 (1 * 1) /\
  (1 * ha - 1 * D3 (1 * 1)) - Qr (1 * 1) (1 * 1) * (1 * ha - 1 * D1 (1 * 1)) <> 0 /\
  (1 * hb - 1 * D3 (1 * 1)) - Qr (1 * 1) (1 * 1) * (1 * hb - 1 * D1 (1 * 1)) <> 0 /\
  (ha / 1 + 0 / 1) * 1 - 1 <> 0 /\ (hb * 1 + 0 / 1) * 1 - 1 <> 0.
Proof. cbn. repeat split; try lra; field. Qed.

(** C02 - proofs.  Two layers:
    (1) [Section AnyField]: the algebraic skeleton over ANY carrier whose [Ops] satisfy [field_theory]
        (closed under the global context: no axioms at all);
    (2) the complex numbers over R ([CRO = cx_ops RO]) are such a field, conjugation is an automorphism of it,
        which gives the time-convention statement (B&H h1  <->  lens code h2). *)
From Coq Require Import ZArith List Bool Reals Lra Field Ring Lia.
From HV Require Import Common.Generic C02.Model.
Import ListNotations.

(* ========================================================================================== *)
Section AnyField.
Context {F : Type} (K : Ops F).
Hypothesis Kf : field_theory (zero K) (one K) (add K) (mul K) (sub K) (opp K)
                             (fun a b => mul K a (inv K b)) (inv K) (@eq F).
Add Field KField : Kf.
Declare Scope f_scope. Delimit Scope f_scope with f.
Local Notation "x + y" := (add K x y) : f_scope. Local Notation "x * y" := (mul K x y) : f_scope.
Local Notation "x - y" := (sub K x y) : f_scope. Local Notation "- x" := (opp K x) : f_scope.
Local Notation "x / y" := (mul K x (inv K y)) : f_scope.
Local Notation "0" := (zero K) : f_scope. Local Notation "1" := (one K) : f_scope.
Local Open Scope f_scope.

Lemma mul_nz a b : a <> 0 -> b <> 0 -> a * b <> 0.
Proof.
  intros Ha Hb E. apply Hb.
  assert (H : b = (inv K a) * (a * b)) by (field; exact Ha).
  rewrite H, E. ring.
Qed.
Lemma sub_nz a b : a <> b -> a - b <> 0.
Proof. intros H E. apply H. assert (X : a = (a - b) + b) by ring. rewrite X, E. ring. Qed.
Lemma nz_of_mul_l a b : a * b <> 0 -> a <> 0.
Proof. intros H E. apply H. rewrite E. ring. Qed.
Lemma nz_of_mul_r a b : a * b <> 0 -> b <> 0.
Proof. intros H E. apply H. rewrite E. ring. Qed.

(** ---- B&H log-derivative form = van de Hulst ratio form ---- *)
Lemma bh_eq_vdh_a D m x n psi psi1 xi xi1 psimx dpsimx :
  m <> 0 -> x <> 0 -> psimx <> 0 -> D = dpsimx / psimx ->
  (D / m + n / x) * xi - xi1 <> 0 ->
  fst (albl_vdH K psimx dpsimx psi (psi1 - n * psi / x) xi (xi1 - n * xi / x) m)
  = bh_a K D m x n psi psi1 xi xi1.
Proof.
  intros Hm Hx Hp HD Hden. unfold albl_vdH, bh_a. cbn [fst].
  subst D. field. repeat split; try assumption.
  intro E. apply Hden.
  assert (X : (dpsimx / psimx / m + n / x) * xi - xi1
              = ((dpsimx * x + n * (psimx * m)) * xi - xi1 * (psimx * m * x)) / (psimx * m * x)) by (field; auto).
  rewrite X, E. ring.
Qed.
Lemma bh_eq_vdh_b D m x n psi psi1 xi xi1 psimx dpsimx :
  x <> 0 -> psimx <> 0 -> D = dpsimx / psimx ->
  (D * m + n / x) * xi - xi1 <> 0 ->
  snd (albl_vdH K psimx dpsimx psi (psi1 - n * psi / x) xi (xi1 - n * xi / x) m)
  = bh_b K D m x n psi psi1 xi xi1.
Proof.
  intros Hx Hp HD Hden. unfold albl_vdH, bh_b. cbn [snd].
  subst D. field. repeat split; try assumption.
  intro E. apply Hden.
  assert (X : (dpsimx / psimx * m + n / x) * xi - xi1
              = ((dpsimx * m * x + n * psimx) * xi - xi1 * (psimx * x)) / (psimx * x)) by (field; auto).
  rewrite X, E. ring.
Qed.
(** the two coefficient formulas coincide (for every order n, index m, size x; n is ANY element of the field).
    Hypotheses = what the special functions satisfy: D = psi'(mx)/psi(mx); the derivatives at x are given by the
    recurrence f'_n = f_{n-1} - n f_n / x (written into the statement); denominators of the code's divisions non-zero. *)
Lemma bh_eq_vdh_any D m x n psi psi1 xi xi1 psimx dpsimx :
  m <> 0 -> x <> 0 -> psimx <> 0 -> D = dpsimx / psimx ->
  (D / m + n / x) * xi - xi1 <> 0 -> (D * m + n / x) * xi - xi1 <> 0 ->
  albl_vdH K psimx dpsimx psi (psi1 - n * psi / x) xi (xi1 - n * xi / x) m
  = scatcoeffs_BH K D m x n psi psi1 xi xi1.
Proof.
  intros. unfold scatcoeffs_BH.
  rewrite <- (bh_eq_vdh_a D m x n psi psi1 xi xi1 psimx dpsimx) by assumption.
  rewrite <- (bh_eq_vdh_b D m x n psi psi1 xi xi1 psimx dpsimx) by assumption.
  destruct (albl_vdH K psimx dpsimx psi (psi1 - n * psi / x) xi (xi1 - n * xi / x) m); reflexivity.
Qed.

(** ---- Yang's layered recursion ---- *)
Section Yang.
Variables (D1 D3 : F -> F) (Qr : F -> F -> F).

(** one step between two layers of EQUAL index whose inner state already is D1(m x_prev): G1 = 0, result D1(m x) *)
Lemma yang_step_same m xp x :
  m * D1 (m * xp) - m * D3 (m * xp) <> 0 ->
  yang_step K m m (leaf_of K D1 D3 Qr m xp x) (D1 (m * xp), D1 (m * xp)) = (D1 (m * x), D1 (m * x)).
Proof.
  intros H. unfold yang_step, leaf_of. apply f_equal2; field.
  - intro E. apply H. rewrite <- E. ring.
  - intro E. apply H. rewrite <- E. ring.
Qed.

Lemma last_cons {A} (l : list A) : forall x d, last (x :: l) d = last l x.
Proof. induction l as [|y t IH]; intros x d; [reflexivity|]. change (last (x :: y :: t) d) with (last (y :: t) d).
  rewrite (IH y d), (IH y x). reflexivity. Qed.

Lemma yang_fold_uniform_from m xs : forall xp,
  (forall z, m * D1 z - m * D3 z <> 0) ->
  yang_fold_vals K m (D1 (m * xp), D1 (m * xp)) (leaves_from K D1 D3 Qr xp (map (fun x => (m, x)) xs))
  = (D1 (m * last xs xp), D1 (m * last xs xp)).
Proof.
  induction xs as [|x t IH]; intros xp H.
  - reflexivity.
  - cbn [map leaves_from yang_fold_vals]. rewrite yang_step_same by apply H. rewrite IH by exact H.
    rewrite last_cons. reflexivity.
Qed.

(** for EVERY number of layers: all layer indices equal => the recursion returns D1(m x_L) for both H^a and H^b *)
Lemma yang_uniform_collapse_any m x0 xs :
  m <> 0 -> (forall z, D1 z <> D3 z) ->
  yang_fold K D1 D3 Qr (map (fun x => (m, x)) (x0 :: xs)) = (D1 (m * last xs x0), D1 (m * last xs x0)).
Proof.
  intros Hm HW. cbn [map yang_fold]. apply yang_fold_uniform_from.
  intro z. assert (E : m * D1 z - m * D3 z = m * (D1 z - D3 z)) by ring. rewrite E.
  apply mul_nz; [exact Hm|apply sub_nz, HW].
Qed.

Lemma last_map_pair (m : F) (xs : list F) (x0 : F) (d : F * F) :
  last (map (fun x : F => (m, x)) (x0 :: xs)) d = (m, last xs x0).
Proof.
  revert x0. induction xs as [|x t IH]; intros x0; [reflexivity|].
  change (map (fun x : F => (m, x)) (x0 :: x :: t)) with ((m, x0) :: map (fun x : F => (m, x)) (x :: t)).
  change (last ((m, x0) :: map (fun x : F => (m, x)) (x :: t)) d) with (last (map (fun x : F => (m, x)) (x :: t)) d).
  rewrite IH. rewrite last_cons. reflexivity.
Qed.

(** ... hence scatcoeffs_multi returns exactly the homogeneous-sphere coefficients of (m, x_L) *)
Lemma multi_uniform_is_homogeneous_any m x0 xs n psi psi1 xi xi1 :
  m <> 0 -> (forall z, D1 z <> D3 z) ->
  scatcoeffs_multi K D1 D3 Qr (map (fun x => (m, x)) (x0 :: xs)) n psi psi1 xi xi1
  = scatcoeffs_BH K (D1 (m * last xs x0)) m (last xs x0) n psi psi1 xi xi1.
Proof.
  intros Hm HW. unfold scatcoeffs_multi. rewrite last_map_pair.
  rewrite yang_uniform_collapse_any by assumption. reflexivity.
Qed.

(** two ADJACENT layers of equal index act as one layer: step (mp -> m over [x0,x1]) then (m -> m over [x1,x2])
    = step (mp -> m over [x0,x2]).  Needs: Q multiplicative along the chain (it is a ratio of ratios,
    Q(z1,z2) = (psi/xi)(z1) / (psi/xi)(z2)), D1 <> D3 at the interface, the code's denominators non-zero. *)
Lemma yang_step_merge mp m x0 x1 x2 ha hb :
  m <> 0 -> D1 (m * x1) <> D3 (m * x1) ->
  Qr (m * x0) (m * x1) * Qr (m * x1) (m * x2) = Qr (m * x0) (m * x2) ->
  (m * ha - mp * D3 (m * x0)) - Qr (m * x0) (m * x1) * (m * ha - mp * D1 (m * x0)) <> 0 ->
  (mp * hb - m * D3 (m * x0)) - Qr (m * x0) (m * x1) * (mp * hb - m * D1 (m * x0)) <> 0 ->
  (m * ha - mp * D3 (m * x0)) - Qr (m * x0) (m * x2) * (m * ha - mp * D1 (m * x0)) <> 0 ->
  (mp * hb - m * D3 (m * x0)) - Qr (m * x0) (m * x2) * (mp * hb - m * D1 (m * x0)) <> 0 ->
  yang_step K m m (leaf_of K D1 D3 Qr m x1 x2) (yang_step K mp m (leaf_of K D1 D3 Qr m x0 x1) (ha, hb))
  = yang_step K mp m (leaf_of K D1 D3 Qr m x0 x2) (ha, hb).
Proof.
  intros Hm HW HQ Hd1 Hd2 Hd3 Hd4.
  unfold yang_step, leaf_of. rewrite <- HQ in *.
  set (q1 := Qr (m * x0) (m * x1)) in *. set (q2 := Qr (m * x1) (m * x2)) in *.
  set (a0 := D1 (m * x0)) in *. set (b0 := D3 (m * x0)) in *.
  set (a1 := D1 (m * x1)) in *. set (b1 := D3 (m * x1)) in *.
  set (a2 := D1 (m * x2)) in *. set (b2 := D3 (m * x2)) in *.
  assert (HW' : a1 - b1 <> 0) by (apply sub_nz, HW).
  apply f_equal2.
  - field. repeat split; try assumption.
    intro E. apply (mul_nz _ _ (mul_nz _ _ Hm HW') Hd3). rewrite <- E. ring.
  - field. repeat split; try assumption.
    intro E. apply (mul_nz _ _ (mul_nz _ _ Hm HW') Hd4). rewrite <- E. ring.
Qed.

(** list level: splitting the layer list *)
Lemma yang_fold_vals_app m h l1 : forall xq l2,
  yang_fold_vals K m h (leaves_from K D1 D3 Qr xq (l1 ++ l2))
  = yang_fold_vals K (fst (last l1 (m, xq))) (yang_fold_vals K m h (leaves_from K D1 D3 Qr xq l1))
                   (leaves_from K D1 D3 Qr (snd (last l1 (m, xq))) l2).
Proof.
  revert m h. induction l1 as [|[m1 x1] t IH]; intros m h xq l2.
  - reflexivity.
  - cbn [app leaves_from yang_fold_vals]. rewrite IH. rewrite last_cons. reflexivity.
Qed.
Lemma yang_fold_app m0 x0 l1 l2 :
  yang_fold K D1 D3 Qr (((m0, x0) :: l1) ++ l2)
  = yang_fold_vals K (fst (last l1 (m0, x0))) (yang_fold K D1 D3 Qr ((m0, x0) :: l1))
                   (leaves_from K D1 D3 Qr (snd (last l1 (m0, x0))) l2).
Proof. cbn [app yang_fold]. apply yang_fold_vals_app. Qed.

(** adjacent equal-index layers can be merged anywhere above the core, for every layer list around them.
    [inner] (non-empty) are the layers below the pair, (mp, xp) its outermost one; the non-zero hypotheses are the
    denominators the code divides by at that point (old and merged) and D1 <> D3 (Wronskian) at the interface. *)
Lemma yang_merge_equal_adjacent_any m0 x0 l1 m x1 x2 post :
  let inner := (m0, x0) :: l1 in
  let mp := fst (last l1 (m0, x0)) in let xp := snd (last l1 (m0, x0)) in
  let ha := fst (yang_fold K D1 D3 Qr inner) in let hb := snd (yang_fold K D1 D3 Qr inner) in
  m <> 0 -> D1 (m * x1) <> D3 (m * x1) ->
  Qr (m * xp) (m * x1) * Qr (m * x1) (m * x2) = Qr (m * xp) (m * x2) ->
  (m * ha - mp * D3 (m * xp)) - Qr (m * xp) (m * x1) * (m * ha - mp * D1 (m * xp)) <> 0 ->
  (mp * hb - m * D3 (m * xp)) - Qr (m * xp) (m * x1) * (mp * hb - m * D1 (m * xp)) <> 0 ->
  (m * ha - mp * D3 (m * xp)) - Qr (m * xp) (m * x2) * (m * ha - mp * D1 (m * xp)) <> 0 ->
  (mp * hb - m * D3 (m * xp)) - Qr (m * xp) (m * x2) * (mp * hb - m * D1 (m * xp)) <> 0 ->
  yang_fold K D1 D3 Qr (inner ++ (m, x1) :: (m, x2) :: post)
  = yang_fold K D1 D3 Qr (inner ++ (m, x2) :: post).
Proof.
  intros inner mp xp ha hb Hm HW HQ H1 H2 H3 H4. unfold inner.
  rewrite !yang_fold_app. fold mp xp. cbn [leaves_from yang_fold_vals].
  rewrite (surjective_pairing (yang_fold K D1 D3 Qr ((m0, x0) :: l1))). fold inner ha hb.
  rewrite yang_step_merge by assumption. reflexivity.
Qed.
(** the same at the core: a first layer with the core's index is absorbed into the core *)
Lemma yang_merge_core_any m x0 x1 post :
  m <> 0 -> D1 (m * x0) <> D3 (m * x0) ->
  yang_fold K D1 D3 Qr ((m, x0) :: (m, x1) :: post) = yang_fold K D1 D3 Qr ((m, x1) :: post).
Proof.
  intros Hm HW. cbn [yang_fold leaves_from yang_fold_vals]. rewrite yang_step_same; [reflexivity|].
  assert (E : m * D1 (m * x0) - m * D3 (m * x0) = m * (D1 (m * x0) - D3 (m * x0))) by ring. rewrite E.
  apply mul_nz; [exact Hm|apply sub_nz, HW].
Qed.

(** an outermost layer with the MEDIUM's index (relative index 1) does not scatter: finishing after that layer with
    psi, xi at its radius x = finishing before it with psi, xi at the radius xp below.
    Oracle hypotheses (what D1, D3, Q are): D1 = psi'/psi, D3 = xi'/xi with f'_n = f_{n-1} - n f_n / z at both radii,
    Q(z1,z2) = (psi/xi)(z1) / (psi/xi)(z2). *)
Lemma yang_outer_medium_any mp xp x n psip psi1p xip xi1p psi psi1 xi xi1 ha hb :
  mp <> 0 -> xp <> 0 -> x <> 0 -> psip <> 0 -> xip <> 0 -> psi <> 0 -> xi <> 0 ->
  D1 (1 * xp) = (psi1p - n * psip / xp) / psip -> D3 (1 * xp) = (xi1p - n * xip / xp) / xip ->
  D1 (1 * x) = (psi1 - n * psi / x) / psi -> D3 (1 * x) = (xi1 - n * xi / x) / xi ->
  Qr (1 * xp) (1 * x) = (psip / xip) / (psi / xi) ->
  D1 (1 * x) <> D3 (1 * x) ->
  (1 * ha - mp * D3 (1 * xp)) - Qr (1 * xp) (1 * x) * (1 * ha - mp * D1 (1 * xp)) <> 0 ->
  (mp * hb - 1 * D3 (1 * xp)) - Qr (1 * xp) (1 * x) * (mp * hb - 1 * D1 (1 * xp)) <> 0 ->
  (ha / mp + n / xp) * xip - xi1p <> 0 -> (hb * mp + n / xp) * xip - xi1p <> 0 ->
  yang_finish K 1 x n psi psi1 xi xi1 (yang_step K mp 1 (leaf_of K D1 D3 Qr 1 xp x) (ha, hb))
  = yang_finish K mp xp n psip psi1p xip xi1p (ha, hb).
Proof.
  intros Hmp Hxp Hx Hpp Hxip Hps Hxi E1 E3 E1' E3' EQ HW Hd1 Hd2 Hf1 Hf2.
  unfold yang_finish, yang_step, leaf_of, bh_a, bh_b. cbn [fst snd].
  rewrite EQ, E1, E3, E1', E3' in *.
  assert (One : 1 <> 0) by exact (F_1_neq_0 Kf).
  assert (W : psi1 * xi - xi1 * psi <> 0).
  { intro E. apply HW.
    assert (X : (psi1 - n * psi / x) / psi - (xi1 - n * xi / x) / xi = (psi1 * xi - xi1 * psi) / (psi * xi))
      by (field; auto).
    assert (Y : (psi1 - n * psi / x) / psi = ((psi1 - n * psi / x) / psi - (xi1 - n * xi / x) / xi)
                                              + (xi1 - n * xi / x) / xi) by ring.
    rewrite Y, X, E. field; auto. }
  apply f_equal2.
  - assert (C1 : (ha * xp + n * mp) * xip - xi1p * (mp * xp) <> 0).
    { intro E. apply Hf1.
      assert (X : (ha / mp + n / xp) * xip - xi1p = ((ha * xp + n * mp) * xip - xi1p * (mp * xp)) / (mp * xp))
        by (field; auto).
      rewrite X, E. ring. }
    assert (C3 : (ha * (xp * xip) - mp * (xi1p * xp - n * xip)) * psi
                 - xi * (ha * (xp * psip) - mp * (psi1p * xp - n * psip)) <> 0).
    { intro E. apply Hd1.
      match goal with |- ?L = 0 =>
        assert (X : L = ((ha * (xp * xip) - mp * (xi1p * xp - n * xip)) * psi
                         - xi * (ha * (xp * psip) - mp * (psi1p * xp - n * psip))) / (xp * xip * psi))
          by (field; auto) end.
      rewrite X, E. ring. }
    field. repeat split; try assumption.
    match goal with |- ?P <> 0 =>
      assert (X : P = ((ha * xp + n * mp) * xip - xi1p * (mp * xp)) * x * (psi1 * xi - xi1 * psi)) by ring end.
    rewrite X. repeat apply mul_nz; assumption.
  - assert (C1 : (hb * mp * xp + n) * xip - xi1p * xp <> 0).
    { intro E. apply Hf2.
      assert (X : (hb * mp + n / xp) * xip - xi1p = ((hb * mp * xp + n) * xip - xi1p * xp) / xp) by (field; auto).
      rewrite X, E. ring. }
    assert (C3 : (mp * hb * (xp * xip) - (xi1p * xp - n * xip)) * psi
                 - xi * (mp * hb * (xp * psip) - (psi1p * xp - n * psip)) <> 0).
    { intro E. apply Hd2.
      match goal with |- ?L = 0 =>
        assert (X : L = ((mp * hb * (xp * xip) - (xi1p * xp - n * xip)) * psi
                         - xi * (mp * hb * (xp * psip) - (psi1p * xp - n * psip))) / (xp * xip * psi))
          by (field; auto) end.
      rewrite X, E. ring. }
    field. repeat split; try assumption.
    match goal with |- ?P <> 0 =>
      assert (X : P = ((hb * mp * xp + n) * xip - xi1p * xp) * x * (psi1 * xi - xi1 * psi)) by ring end.
    rewrite X. repeat apply mul_nz; assumption.
Qed.

(** list level: scatcoeffs_multi of (inner ++ one layer of relative index 1) = scatcoeffs_multi of inner, for every
    inner layer list; psi, xi taken at the respective outermost radius as the code does. *)
Lemma multi_outer_medium_any m0 x0 l1 x n psip psi1p xip xi1p psi psi1 xi xi1 :
  let inner := (m0, x0) :: l1 in
  let mp := fst (last l1 (m0, x0)) in let xp := snd (last l1 (m0, x0)) in
  let ha := fst (yang_fold K D1 D3 Qr inner) in let hb := snd (yang_fold K D1 D3 Qr inner) in
  mp <> 0 -> xp <> 0 -> x <> 0 -> psip <> 0 -> xip <> 0 -> psi <> 0 -> xi <> 0 ->
  D1 (1 * xp) = (psi1p - n * psip / xp) / psip -> D3 (1 * xp) = (xi1p - n * xip / xp) / xip ->
  D1 (1 * x) = (psi1 - n * psi / x) / psi -> D3 (1 * x) = (xi1 - n * xi / x) / xi ->
  Qr (1 * xp) (1 * x) = (psip / xip) / (psi / xi) ->
  D1 (1 * x) <> D3 (1 * x) ->
  (1 * ha - mp * D3 (1 * xp)) - Qr (1 * xp) (1 * x) * (1 * ha - mp * D1 (1 * xp)) <> 0 ->
  (mp * hb - 1 * D3 (1 * xp)) - Qr (1 * xp) (1 * x) * (mp * hb - 1 * D1 (1 * xp)) <> 0 ->
  (ha / mp + n / xp) * xip - xi1p <> 0 -> (hb * mp + n / xp) * xip - xi1p <> 0 ->
  scatcoeffs_multi K D1 D3 Qr (inner ++ [(1, x)]) n psi psi1 xi xi1
  = scatcoeffs_multi K D1 D3 Qr inner n psip psi1p xip xi1p.
Proof.
  intros inner mp xp ha hb. intros.
  unfold scatcoeffs_multi. rewrite last_last.
  unfold inner at 2. rewrite last_cons. rewrite (surjective_pairing (last l1 (m0, x0))). fold mp xp.
  unfold inner. rewrite yang_fold_app. fold mp xp inner. cbn [leaves_from yang_fold_vals].
  rewrite (surjective_pairing (yang_fold K D1 D3 Qr inner)). fold ha hb.
  apply yang_outer_medium_any; assumption.
Qed.
End Yang.

(** ---- thickness <-> outer-radius descriptions of a layered sphere ---- *)
Lemma diffs_cumsum_from ts : forall acc, diffs_from K acc (cumsum_from K acc ts) = ts.
Proof. induction ts as [|t r IH]; intros acc; [reflexivity|]. cbn [cumsum_from diffs_from]. rewrite IH.
  f_equal. ring. Qed.
Lemma cumsum_diffs_from rs : forall prev, cumsum_from K prev (diffs_from K prev rs) = rs.
Proof. induction rs as [|r t IH]; intros prev; [reflexivity|]. cbn [cumsum_from diffs_from].
  assert (E : prev + (r - prev) = r) by ring. rewrite E, IH. reflexivity. Qed.
Lemma cumsum_diff_any : (forall ts, diffs K (layered_r K ts) = ts) /\ (forall rs, layered_r K (diffs K rs) = rs).
Proof. split; intros [|a l]; try reflexivity; unfold diffs, layered_r.
  - rewrite diffs_cumsum_from. reflexivity.
  - rewrite cumsum_diffs_from. reflexivity. Qed.
Lemma layered_r_length ts : length (layered_r K ts) = length ts.
Proof. destruct ts as [|t0 r]; [reflexivity|]. cbn [layered_r length]. f_equal.
  generalize t0. induction r as [|a r IH]; intros acc; [reflexivity|]. cbn [cumsum_from length]. rewrite IH. reflexivity. Qed.

(** ---- amplitude scattering matrix packing ---- *)
Lemma asm_sums_spec ab : forall n pt acc,
  asm_sums K n ab pt acc = (fst acc + S1sum K n ab pt, snd acc + S2sum K n ab pt).
Proof.
  induction ab as [|[a b] ab IH]; intros n pt acc.
  - destruct acc as [u v]. cbn [asm_sums S1sum S2sum fst snd]. apply f_equal2; ring.
  - destruct pt as [|[p t] pt].
    + destruct acc as [u v]. cbn [asm_sums S1sum S2sum fst snd]. apply f_equal2; ring.
    + cbn [asm_sums S1sum S2sum]. rewrite IH. cbn [fst snd]. apply f_equal2; ring.
Qed.
(** asm_mie_far returns [[S2, 0], [0, S1]] (B&H 4.74 / 4.75 convention), for every expansion order *)
Lemma asm_cshift_any ab pt : asm_far K ab pt = ((S2sum K 1 ab pt, 0), (0, S1sum K 1 ab pt)).
Proof.
  unfold asm_far. rewrite asm_sums_spec. unfold reshape22, cshift1. cbn [fst snd app nth].
  apply f_equal2; apply f_equal2; ring.
Qed.
(** the lens code's sums are the same two series: S_perp = S1, S_par = S2 *)
Lemma mls_is_S ab : forall n pt, mls_perp K n ab pt = S1sum K n ab pt /\ mls_par K n ab pt = S2sum K n ab pt.
Proof.
  induction ab as [|[a b] ab IH]; intros n pt; [split; reflexivity|].
  destruct pt as [|[p t] pt]; [split; reflexivity|].
  cbn [mls_perp mls_par S1sum S2sum]. destruct (IH (n + 1)%Z pt) as [E1 E2]. rewrite E1, E2. split; ring.
Qed.
(** tmatrix_fields / multisphere._asm_far packing of the 4-vector returned by asmfr / asm *)
Lemma tm_pack_entries_any s1 s2 s3 s4 :
  tm_pack K [s1; s2; s3; s4] = ((s2 * mhalf K, s3 * mhalf K), (s4 * mhalf K, s1 * mhalf K)).
Proof. reflexivity. Qed.

(** ---- field assembly ---- *)
(** for a diagonal matrix [[S2,0],[0,S1]] the spherical components are B&H 4.75:
    E_theta = pf * S2 * E_par,  E_phi = - pf * S1 * E_perp *)
Lemma scat_field_diag_any pf S1 S2 ex ey cp sp :
  calc_scat_field K pf ((S2, 0), (0, S1)) (incfield K ex ey cp sp)
  = (pf * S2 * (ex * cp + ey * sp), - (pf * S1 * (ex * sp - ey * cp))).
Proof. unfold calc_scat_field, incfield. cbn [fst snd]. apply f_equal2; ring. Qed.
(** the non-radial part of every assembled field is transverse: r_hat . E = 0 *)
Lemma fieldstocart_transverse_any s ct st cp sp :
  ct * ct + st * st = 1 -> cp * cp + sp * sp = 1 ->
  let '(e1, e2, e3) := fieldstocart K s ct st cp sp in
  st * cp * e1 + st * sp * e2 + ct * e3 = 0.
Proof.
  intros Ht Hp. unfold fieldstocart. destruct s as [a b]. cbn [fst snd].
  assert (E : st * cp * (ct * cp * a - sp * b) + st * sp * (ct * sp * a + cp * b) + ct * (- (1) * st * a)
              = st * ct * a * ((cp * cp + sp * sp) - 1)) by ring.
  rewrite E, Hp. ring.
Qed.
(** and the radial part is along r_hat with amplitude a_r *)
Lemma radial_vect_any ar ct st cp sp :
  ct * ct + st * st = 1 -> cp * cp + sp * sp = 1 ->
  let '(e1, e2, e3) := radial_vect_to_cart K ar ct st cp sp in
  st * cp * e1 + st * sp * e2 + ct * e3 = ar.
Proof.
  intros Ht Hp. unfold radial_vect_to_cart.
  assert (E : st * cp * (st * cp * ar) + st * sp * (st * sp * ar) + ct * (ct * ar)
              = ar * (st * st * (cp * cp + sp * sp) + ct * ct)) by ring.
  rewrite E, Hp. assert (E2 : st * st * 1 + ct * ct = ct * ct + st * st) by ring. rewrite E2, Ht. ring.
Qed.
End AnyField.

(* ========================================================================================== *)
(** the complex numbers over R are a field in the sense used above *)
Local Open Scope R_scope.
Definition CRO : Ops (cx R) := cx_ops RO.
Definition C := cx R.

Lemma cx_eq (a b : C) : fst a = fst b -> snd a = snd b -> a = b.
Proof. destruct a, b; simpl; intros -> ->; reflexivity. Qed.
Lemma cnorm2_pos (a : C) : a <> c0 RO -> cnorm2 RO a <> 0.
Proof.
  destruct a as [x y]. unfold c0, cnorm2. cbn. intros H E.
  apply H. assert (x = 0) by nra. assert (y = 0) by nra. subst. reflexivity.
Qed.
Ltac cx_unfold := unfold CRO, cx_ops, c0, c1, ci, cofr, cadd, csub, copp, cmul, cinv, cconj, cnorm2 in *;
                  cbn [zero one add mul sub opp inv fst snd RO ofZ] in *.

Lemma CR_field : field_theory (zero CRO) (one CRO) (add CRO) (mul CRO) (sub CRO) (opp CRO)
                              (fun a b => mul CRO a (inv CRO b)) (inv CRO) (@eq C).
Proof.
  constructor.
  - constructor; intros; try (destruct x); try (destruct y); try (destruct z); cx_unfold;
      try (apply f_equal2; ring).
  - cx_unfold. intro E. inversion E. lra.
  - reflexivity.
  - intros p Hp. pose proof (cnorm2_pos p Hp) as Hn. destruct p as [x y]. cx_unfold.
    apply f_equal2; field; exact Hn.
Qed.

(** conjugation is an automorphism of that field *)
Lemma conj_add a b : cconj RO (add CRO a b) = add CRO (cconj RO a) (cconj RO b).
Proof. destruct a, b. cx_unfold. apply f_equal2; ring. Qed.
Lemma conj_sub a b : cconj RO (sub CRO a b) = sub CRO (cconj RO a) (cconj RO b).
Proof. destruct a, b. cx_unfold. apply f_equal2; ring. Qed.
Lemma conj_mul a b : cconj RO (mul CRO a b) = mul CRO (cconj RO a) (cconj RO b).
Proof. destruct a, b. cx_unfold. apply f_equal2; ring. Qed.
Lemma conj_opp a : cconj RO (opp CRO a) = opp CRO (cconj RO a).
Proof. destruct a. cx_unfold. apply f_equal2; ring. Qed.
Lemma conj_inv a : cconj RO (inv CRO a) = inv CRO (cconj RO a).
Proof. destruct a as [x y]. cx_unfold. replace (x * x + - y * - y) with (x * x + y * y) by ring.
  apply f_equal2; unfold Rdiv; ring. Qed.
Lemma conj_conj a : cconj RO (cconj RO a) = a.
Proof. destruct a. cx_unfold. apply f_equal2; ring. Qed.
Lemma conj_real (r : R) : cconj RO (cofr RO r) = cofr RO r.
Proof. cx_unfold. apply f_equal2; ring. Qed.
Lemma conj_ofZ z : cconj RO (ofZ CRO z) = ofZ CRO z.
Proof. unfold CRO, cx_ops. cbn [ofZ]. apply conj_real. Qed.
Lemma conj_zero : cconj RO (zero CRO) = zero CRO.
Proof. cx_unfold. apply f_equal2; ring. Qed.
Lemma conj_one : cconj RO (one CRO) = one CRO.
Proof. cx_unfold. apply f_equal2; ring. Qed.
#[export] Hint Rewrite conj_add conj_sub conj_mul conj_opp conj_inv conj_real conj_ofZ conj_zero conj_one : cconj.

Definition conj2 (p : C * C) : C * C := (cconj RO (fst p), cconj RO (snd p)).

(** the lens code's formula commutes with conjugation of all its inputs *)
Lemma vdh_conj psimx dpsimx psi dpsi xi dxi m :
  albl_vdH CRO (cconj RO psimx) (cconj RO dpsimx) (cconj RO psi) (cconj RO dpsi) (cconj RO xi) (cconj RO dxi)
           (cconj RO m)
  = conj2 (albl_vdH CRO psimx dpsimx psi dpsi xi dxi m).
Proof. unfold albl_vdH, conj2. cbn [fst snd]. autorewrite with cconj. reflexivity. Qed.

(** bh_eq_vdh WITH the time-convention map, over the complex numbers.
    Reading: x, n, psi_n(x), psi_{n-1}(x) real; xi = psi + i*chi is B&H's h1-based Riccati function, the lens code
    uses its conjugate (h2); m complex (absorbing allowed): psi(conj(m) x) = conj(psi(m x)).  Then the lens-code
    coefficients of the conjugate index are the conjugates of the miescatlib coefficients. *)
Lemma bh_eq_vdh_conj (D m xi xi1 psimx dpsimx : C) (x n psi psi1 : R) :
  let X := cofr RO x in let N := cofr RO n in let Psi := cofr RO psi in let Psi1 := cofr RO psi1 in
  m <> zero CRO -> x <> 0 -> psimx <> zero CRO -> D = mul CRO dpsimx (inv CRO psimx) ->
  sub CRO (mul CRO (add CRO (mul CRO D (inv CRO m)) (mul CRO N (inv CRO X))) xi) xi1 <> zero CRO ->
  sub CRO (mul CRO (add CRO (mul CRO D m) (mul CRO N (inv CRO X))) xi) xi1 <> zero CRO ->
  albl_vdH CRO (cconj RO psimx) (cconj RO dpsimx)
           Psi (sub CRO Psi1 (mul CRO (mul CRO N Psi) (inv CRO X)))
           (cconj RO xi) (sub CRO (cconj RO xi1) (mul CRO (mul CRO N (cconj RO xi)) (inv CRO X)))
           (cconj RO m)
  = conj2 (scatcoeffs_BH CRO D m X N Psi Psi1 xi xi1).
Proof.
  intros X N Psi Psi1 Hm Hx Hp HD H1 H2.
  assert (HX : X <> zero CRO).
  { unfold X. cx_unfold. intro E. inversion E. lra. }
  rewrite <- (bh_eq_vdh_any CRO CR_field D m X N Psi Psi1 xi xi1 psimx dpsimx Hm HX Hp HD H1 H2).
  rewrite <- vdh_conj. unfold X, N, Psi, Psi1. autorewrite with cconj. reflexivity.
Qed.

(** real angular functions: conjugating the coefficients conjugates the amplitude sums *)
Definition conj_ab (ab : list (C * C)) := map conj2 ab.
Definition real_pt (pt : list (R * R)) : list (C * C) := map (fun p => (cofr RO (fst p), cofr RO (snd p))) pt.
Lemma pref_conj z : cconj RO (pref CRO (ofZ CRO z)) = pref CRO (ofZ CRO z).
Proof. unfold pref, two. autorewrite with cconj. reflexivity. Qed.
Lemma S_conj ab : forall n pt,
  S1sum CRO n (conj_ab ab) (real_pt pt) = cconj RO (S1sum CRO n ab (real_pt pt)) /\
  S2sum CRO n (conj_ab ab) (real_pt pt) = cconj RO (S2sum CRO n ab (real_pt pt)).
Proof.
  induction ab as [|[a b] ab IH]; intros n pt.
  - cbn [conj_ab map S1sum S2sum]. rewrite conj_zero. split; reflexivity.
  - destruct pt as [|[p t] pt].
    + cbn [conj_ab real_pt map S1sum S2sum]. rewrite conj_zero. split; reflexivity.
    + cbn [conj_ab real_pt map S1sum S2sum conj2 fst snd].
      destruct (IH (n + 1)%Z pt) as [E1 E2]. fold (conj_ab ab). fold (real_pt pt). rewrite E1, E2.
      autorewrite with cconj. rewrite pref_conj. split; reflexivity.
Qed.

(** ---- the executed Q(i) instance computes the same numbers as the C instance ---- *)
From Coq Require Import QArith Qreals.
Definition Q2C (a : cx Q) : C := (Q2R (fst a), Q2R (snd a)).
Definition CQO : Ops (cx Q) := cx_ops QO.
Lemma Q2C_add a b : Q2C (add CQO a b) = add CRO (Q2C a) (Q2C b).
Proof. destruct a, b. unfold Q2C, CQO, CRO, cx_ops, cadd. cbn [add fst snd QO RO]. rewrite !Q2R_plus. reflexivity. Qed.
Lemma Q2C_sub a b : Q2C (sub CQO a b) = sub CRO (Q2C a) (Q2C b).
Proof. destruct a, b. unfold Q2C, CQO, CRO, cx_ops, csub. cbn [sub fst snd QO RO]. rewrite !Q2R_minus. reflexivity. Qed.
Lemma Q2C_mul a b : Q2C (mul CQO a b) = mul CRO (Q2C a) (Q2C b).
Proof. destruct a, b. unfold Q2C, CQO, CRO, cx_ops, cmul. cbn [mul sub add fst snd QO RO].
  rewrite Q2R_minus, Q2R_plus, !Q2R_mult. reflexivity. Qed.
Lemma Q2C_inv a : ~ (cnorm2 QO a == 0)%Q -> Q2C (inv CQO a) = inv CRO (Q2C a).
Proof. destruct a as [x y]. intros H. unfold Q2C, CQO, CRO, cx_ops, cinv, cnorm2 in *.
  cbn [inv mul add opp fst snd QO RO] in *. rewrite !Q2R_mult, !Q2R_inv by exact H.
  rewrite Q2R_opp, Q2R_plus, !Q2R_mult. reflexivity. Qed.
(** link for the homogeneous-sphere coefficient (what is run on Q(i) is the function the theorems are about) *)
Lemma bh_a_Q_C D m x n psi psi1 xi xi1 :
  ~ (cnorm2 QO m == 0)%Q -> ~ (cnorm2 QO x == 0)%Q ->
  ~ (cnorm2 QO (sub CQO (mul CQO (add CQO (mul CQO D (inv CQO m)) (mul CQO n (inv CQO x))) xi) xi1) == 0)%Q ->
  Q2C (bh_a CQO D m x n psi psi1 xi xi1)
  = bh_a CRO (Q2C D) (Q2C m) (Q2C x) (Q2C n) (Q2C psi) (Q2C psi1) (Q2C xi) (Q2C xi1).
Proof.
  intros Hm Hx Hd. unfold bh_a.
  rewrite Q2C_mul, (Q2C_inv _ Hd), !Q2C_sub, !Q2C_mul, !Q2C_add, !Q2C_mul, (Q2C_inv _ Hm), (Q2C_inv _ Hx).
  reflexivity.
Qed.
Lemma bh_b_Q_C D m x n psi psi1 xi xi1 :
  ~ (cnorm2 QO x == 0)%Q ->
  ~ (cnorm2 QO (sub CQO (mul CQO (add CQO (mul CQO D m) (mul CQO n (inv CQO x))) xi) xi1) == 0)%Q ->
  Q2C (bh_b CQO D m x n psi psi1 xi xi1)
  = bh_b CRO (Q2C D) (Q2C m) (Q2C x) (Q2C n) (Q2C psi) (Q2C psi1) (Q2C xi) (Q2C xi1).
Proof.
  intros Hx Hd. unfold bh_b.
  rewrite Q2C_mul, (Q2C_inv _ Hd), !Q2C_sub, !Q2C_mul, !Q2C_add, !Q2C_mul, (Q2C_inv _ Hx).
  reflexivity.
Qed.

(** the reals themselves are an instance too (used for the non-vacuity examples) *)
Lemma R_field : field_theory (zero RO) (one RO) (add RO) (mul RO) (sub RO) (opp RO)
                             (fun a b => mul RO a (inv RO b)) (inv RO) (@eq R).
Proof.
  constructor.
  - constructor; intros; cbn [zero one add mul sub opp RO]; ring.
  - cbn. lra.
  - reflexivity.
  - intros p Hp. cbn [zero one add mul sub opp inv RO] in *. field. exact Hp.
Qed.

(** C16 property theorems: statements only; proofs are in Lemmas.v.
    R instance = object of the numeric theorems; the Q instance executed against the implementation
    computes the same integers (quantiser_agrees_on_Q); the discrete parts (pack/unpack, update,
    channels) are one definition for every carrier. *)
From Coq Require Import ZArith List Bool String Reals QArith Qround Lra Lia Permutation.
From HV Require Import Common.Generic C18.Model C18.Lemmas C16.Model C16.Lemmas C16.Findings.
Import ListNotations.
Local Open Scope string_scope.
Local Open Scope R_scope.

(** ** attributes through pack_attrs / unpack_attrs, for EVERY attribute dictionary of the grammar
    (None | nested yaml value | labelled array with any number of dims), any name / spacing, any carrier.
    Hypotheses: the PyYAML oracle returns what was dumped; keys distinct and not reserved. *)
Theorem unpack_pack : forall (T txt ttxt : Type) ydump yload tdump tload,
  (forall y : yv T, yload (ydump y) = Some y) -> (forall t : table T, tload (tdump t) = t) ->
  forall nm sp (a : attrs T), attrs_ok a ->
  unpack_attrs txt ttxt yload tload (pack_attrs txt ttxt ydump tdump nm sp a) = Some (demote_all a).
Proof. exact (@unpack_pack_attrs). Qed.
Print Assumptions unpack_pack.

(** hp.save -> hp.load (HDF5): values, coordinates, name and every attribute come back; the only changes
    are the documented default name and dimensionless arrays read back as the number they hold *)
Theorem h5_save_load : forall (T txt ttxt : Type) ydump yload tdump tload,
  (forall y : yv T, yload (ydump y) = Some y) -> (forall t : table T, tload (tdump t) = t) ->
  forall stem (im : image T), attrs_ok (i_attrs im) ->
  load_h5 txt ttxt yload tload (save_h5 txt ttxt ydump tdump stem im) = Some (normal stem im).
Proof. exact (@h5_roundtrip). Qed.
Print Assumptions h5_save_load.

(** any number of save/load cycles gives what one cycle gives *)
Theorem h5_repeated_cycles : forall (T txt ttxt : Type) ydump yload tdump tload,
  (forall y : yv T, yload (ydump y) = Some y) -> (forall t : table T, tload (tdump t) = t) ->
  forall n stem (im : image T), attrs_ok (i_attrs im) ->
  cycles txt ttxt ydump yload tdump tload (S n) stem im = Some (normal stem im).
Proof. exact (@h5_cycles). Qed.
Print Assumptions h5_repeated_cycles.

Theorem normal_form_is_fixed : forall (T : Type) stem stem' (im : image T),
  normal stem' (normal stem im) = normal stem im.
Proof. intros. apply normal_idem. Qed.
Print Assumptions normal_form_is_fixed.

(** ** update_metadata *)
Theorem update_only_named : forall (T : Type) (O : Ops T) sqrtO (im b : image T) mi wl pol ns,
  update_metadata O sqrtO im mi wl pol ns = Some b ->
  i_name b = i_name im /\ i_coords b = i_coords im /\ i_vals b = i_vals im /\
  (forall k, ~ In k meta_keys -> lookup k (i_attrs b) = lookup k (i_attrs im)) /\
  (forall k, In k meta_keys -> exists v, lookup k (i_attrs b) = Some v).
Proof. exact (@update_only_named_lemma). Qed.
Print Assumptions update_only_named.

Theorem update_named_fields : forall (T : Type) (O : Ops T) sqrtO (im b : image T) mi wl pol ns,
  update_metadata O sqrtO im mi wl pol ns = Some b ->
  let old k := match lookup k (i_attrs im) with Some x => x | None => ANone end in
  lookup "medium_index" (i_attrs b) = Some (match mi with Some y => AVal y | None => old "medium_index" end) /\
  (wl = UNone -> lookup "illum_wavelen" (i_attrs b) = Some (old "illum_wavelen")) /\
  (pol = PNone -> lookup "illum_polarization" (i_attrs b) = Some (old "illum_polarization")) /\
  (ns = UNone -> lookup "noise_sd" (i_attrs b) = Some (old "noise_sd")) /\
  (forall y, wl = UVal y -> lookup "illum_wavelen" (i_attrs b) = Some (AVal y)) /\
  (forall y, ns = UVal y -> lookup "noise_sd" (i_attrs b) = Some (AVal y)) /\
  (forall a, wl = UArr a -> lookup "illum_wavelen" (i_attrs b) = Some (AArr a)) /\
  (forall a, pol = PArr a -> lookup "illum_polarization" (i_attrs b) = Some (AArr a)).
Proof. exact (@update_named_lemma). Qed.
Print Assumptions update_named_fields.

(** the dictionary-level statement for all keys at once *)
Theorem update_attrs_semantics : forall (T : Type) (a : attrs T) mi wl pol ns k,
  lookup k (update_attrs a mi wl pol ns) =
  match lookup k (upd_list mi wl pol ns) with
  | Some v => if is_none v then (match lookup k a with Some x => Some x | None => Some ANone end) else Some v
  | None => lookup k a
  end.
Proof. exact (@update_attrs_lookup). Qed.
Print Assumptions update_attrs_semantics.

Theorem to_vector_unit : forall c : list R, (List.length (pad3 RO c) = 3)%nat -> sumsq RO (pad3 RO c) <> 0 ->
  exists a, to_vector RO sqrt c = Some a /\
            a_dims a = [("vector", xyz)] /\
            a_data a = map (fun x => x / sqrt (sumsq RO (pad3 RO c))) (pad3 RO c) /\
            0 < sqrt (sumsq RO (pad3 RO c)) /\
            sumsq RO (a_data a) = 1.
Proof. exact to_vector_unit_lemma. Qed.
Print Assumptions to_vector_unit.

(** per-channel dictionaries become an array over the dimension whose labels are the keys *)
Theorem dict_to_array_spec : forall coords (l : list (label R * R)) v, conv_arg RO coords (UDict l) = Some v ->
  exists nm ls, v = AArr (mkArr [(nm, map fst l)] (map snd l)) /\ In (nm, ls) coords /\ Permutation (map fst l) ls.
Proof. exact dict_to_array_lemma. Qed.
Print Assumptions dict_to_array_spec.

(** the original object is untouched: the call allocates its result *)
Theorem update_pure : forall (T : Type) (O : Ops T) sqrtO h addr mi wl pol ns h' r,
  um_heap O sqrtO h addr mi wl pol ns = (h', r) ->
  (forall i, (i < List.length h)%nat -> nth_error h' i = nth_error h i) /\
  (forall j, r = Some j -> exists im b, nth_error h addr = Some im /\ nth_error h' j = Some b /\
                          update_metadata O sqrtO im mi wl pol ns = Some b /\ (List.length h <= j)%nat).
Proof. exact (@um_heap_pure). Qed.
Print Assumptions update_pure.

(** ** coordinates: pixel (i, j) sits at (i*s_x, j*s_y) *)
Theorem pixel_coords : forall nx ny sx sy z i j, (i < nx)%nat -> (j < ny)%nat ->
  make_coords RO nx ny sx sy z = [("z", [LN z]); ("x", map LN (axis RO nx sx)); ("y", map LN (axis RO ny sy))] /\
  List.length (axis RO nx sx) = nx /\ List.length (axis RO ny sy) = ny /\
  nth i (axis RO nx sx) 0 = INR i * sx /\ nth j (axis RO ny sy) 0 = INR j * sy.
Proof. intros. split; [reflexivity|]. split; [apply axis_length|]. split; [apply axis_length|].
  split; apply axis_nth; assumption. Qed.
Print Assumptions pixel_coords.

(** ** load_image: the requested colour channels, in the requested order, with their labels *)
Theorem channel_select : forall n (px : list (list (list R))) cs,
  cs <> [] -> Forall (fun c => (c < n)%nat) cs ->
  exists labels sel, load_channels RO (RColour n px) (CList cs) = LOk labels sel /\
    List.length sel = List.length px /\
    (forall i j k, (i < List.length px)%nat -> (j < List.length (nth i px []))%nat -> (k < List.length cs)%nat ->
        nth k (nth j (nth i sel []) []) 0 = nth (nth k cs 0%nat) (nth j (nth i px []) []) 0) /\
    (labels = None <-> List.length cs = 1%nat) /\
    ((1 < List.length cs)%nat -> Forall (fun c => (c <= 2)%nat) cs -> labels = Some (map rgb_name cs)).
Proof. exact channel_select_lemma. Qed.
Print Assumptions channel_select.

Theorem channel_refusals : forall n (px : list (list (list R))) cs c g ch,
  load_channels RO (RColour n px) CNone = LBadImage /\
  (In c cs -> (n <= c)%nat -> load_channels RO (RColour n px) (CList cs) = LLoadError) /\
  load_channels RO (RGrey g) ch = LOk None (map (map (fun v => [v])) g) /\
  load_channels RO (RColour n px) CAll = load_channels RO (RColour n px) (CList (seq 0 n)).
Proof. exact channel_errors_lemma. Qed.
Print Assumptions channel_refusals.

(** ** load_average: Welford accumulator = batch mean / variance, hence independent of the file order *)
Theorem welford_correct : forall l : list R, l <> [] ->
  acc_mean (push_all RO l) = tmean RO l /\ acc_var RO (push_all RO l) = Some (batch_var RO l).
Proof. exact welford_mean_var. Qed.
Print Assumptions welford_correct.

Theorem welford_perm_invariant : forall l l' : list R, Permutation l l' ->
  acc_mean (push_all RO l) = acc_mean (push_all RO l') /\ acc_var RO (push_all RO l) = acc_var RO (push_all RO l').
Proof. exact welford_order. Qed.
Print Assumptions welford_perm_invariant.

Theorem average_is_pixelwise_mean : forall (imgs : list (list R)) npix p, imgs <> [] -> (p < npix)%nat ->
  nth p (avg_image RO imgs npix) 0 = tmean RO (series RO imgs p) /\
  nth p (var_image RO imgs npix) None = Some (batch_var RO (series RO imgs p)).
Proof. exact avg_image_is_mean. Qed.
Print Assumptions average_is_pixelwise_mean.

(** for any square-root function whatsoever *)
Theorem noise_order_free : forall (sqrtO : R -> R) (imgs imgs' : list (list R)) npix, Permutation imgs imgs' ->
  avg_image RO imgs npix = avg_image RO imgs' npix /\
  var_image RO imgs npix = var_image RO imgs' npix /\
  avg_noise RO sqrtO imgs npix = avg_noise RO sqrtO imgs' npix.
Proof. exact noise_order_free_lemma. Qed.
Print Assumptions noise_order_free.

(** ** TIFF: the quantiser q = trunc(u*(2^bits-1) + 0.499999), every bit depth *)
Theorem quantiser_error : forall bits u, (1 <= bits)%Z -> 0 <= u <= 1 ->
  let q := quant RO Int_part bits u in let M := IZR (qmax bits) in
  (0 <= q <= qmax bits)%Z /\ Rabs (IZR q / M - u) <= (1 / 2 + 1 / 1000000) / M.
Proof. exact quantiser_error_lemma. Qed.
Print Assumptions quantiser_error.

Theorem quantiser_endpoints : forall bits, (1 <= bits)%Z ->
  quant RO Int_part bits 0 = 0%Z /\ quant RO Int_part bits 1 = qmax bits.
Proof. exact quant_endpoints_lemma. Qed.
Print Assumptions quantiser_endpoints.

Theorem quantiser_monotone : forall bits u v, (1 <= bits)%Z -> u <= v ->
  (quant RO Int_part bits u <= quant RO Int_part bits v)%Z.
Proof. exact quant_monotone_lemma. Qed.
Print Assumptions quantiser_monotone.

(** save_image (scaling to [lo, hi], quantise) then load (rescale): every pixel within the stated step *)
Theorem tiff_roundtrip_error : forall bits lo hi v, (1 <= bits)%Z -> lo < hi -> lo <= v <= hi ->
  Rabs (tiff_load RO 0 (qmax bits) lo hi (tiff_store RO Int_part bits lo hi v) - v)
    <= (hi - lo) * ((1 / 2 + 1 / 1000000) / IZR (qmax bits)).
Proof. exact tiff_roundtrip_error_lemma. Qed.
Print Assumptions tiff_roundtrip_error.

Theorem scaling_clips : forall lo hi v, lo < hi ->
  (v <= lo -> scale01 RO lo hi v = 0) /\ (hi <= v -> scale01 RO lo hi v = 1).
Proof. exact scale01_clips. Qed.
Print Assumptions scaling_clips.

Theorem quantiser_agrees_on_Q : forall bits (u : Q), quant QO Qfloor bits u = quant RO Int_part bits (Q2R u).
Proof. exact quant_Q_R. Qed.
Print Assumptions quantiser_agrees_on_Q.

(** ** the code as it stood (Findings.v) *)
Theorem finding_zero_dim_array :
  unpack_attrs (yv Q) (table Q) Some idt (pack_attrs_asis (yv Q) (table Q) idy idt (Some "bg") None noise0) = None.
Proof. exact zero_dim_array_refuted. Qed.
Print Assumptions finding_zero_dim_array.

(** non-vacuity: the hypotheses are satisfiable by concrete non-trivial objects *)
Example hyps_satisfiable :
  attrs_ok (T:=Q) [("medium_index", AVal (YNum (133 # 100)%Q)); ("noise_sd", AArr (mkArr [] [(1 # 4)%Q]));
                   ("illum_polarization", AArr pol_vi); ("extra", AVal (YMap [("a", YSeq [YInt 1; YStr "b"])])); ("none", ANone)] /\
  (List.length (pad3 RO [3%R; 4%R]) = 3%nat) /\ sumsq RO (pad3 RO [3%R; 4%R]) <> 0 /\
  (quant QO Qfloor 8 (1 # 3) = 85)%Z /\
  update_metadata QO (fun x => x) (mkImage None (make_coords QO 2 2 1%Q 1%Q 0%Q ++ [("illumination", [LS "red"; LS "green"])])%list [] [])
      None (UDict [(LS "green", (1 # 2)%Q); (LS "red", (2 # 3)%Q)]) (PVec [1%Q; 0%Q]) UNone <> None.
Proof. split; [|split; [reflexivity|split; [|split; [vm_compute; reflexivity|vm_compute; discriminate]]]].
  - split; [|split].
    + simpl. repeat constructor; simpl; intuition discriminate.
    + simpl. intros k [<-|[<-|[<-|[<-|[<-|[]]]]]]; reflexivity.
    + repeat constructor; simpl; try exact I; try (intros; eauto); try discriminate.
  - unfold sumsq, sq; simpl; ro. lra. Qed.

(** C16 proofs. *)
From Coq Require Import ZArith List Bool String Reals QArith Qreals Qround Lra Lia Permutation.
From HV Require Import Common.Generic C18.Model C18.Lemmas C16.Model.
Import ListNotations.
Local Open Scope string_scope.

Ltac ro := cbn [zero one add mul sub opp inv ltb leb eqb ofZ RO] in *.

(** * dictionaries *)
Lemma lookup_dset {A} (d : list (string * A)) k k' v :
  lookup k (dset d k' v) = if String.eqb k k' then Some v else lookup k d.
Proof. induction d as [|[k0 v0] t IH]; simpl.
  - destruct (String.eqb k k'); reflexivity.
  - destruct (String.eqb k' k0) eqn:E; simpl.
    + apply String.eqb_eq in E; subst k0. destruct (String.eqb k k'); reflexivity.
    + destruct (String.eqb k k0) eqn:E2.
      * apply String.eqb_eq in E2; subst k0. rewrite String.eqb_sym in E. rewrite E. reflexivity.
      * exact IH. Qed.
Lemma lookup_app {A} (d e : list (string * A)) k :
  lookup k (d ++ e) = match lookup k d with Some v => Some v | None => lookup k e end.
Proof. induction d as [|[k0 v0] t IH]; simpl; [reflexivity|]. destruct (String.eqb k k0); [reflexivity|exact IH]. Qed.
Lemma lookup_notin {A} (d : list (string * A)) k : ~ In k (map fst d) -> lookup k d = None.
Proof. induction d as [|[k0 v0] t IH]; simpl; intros H; [reflexivity|].
  destruct (String.eqb k k0) eqn:E; [apply String.eqb_eq in E; subst; tauto|]. apply IH. tauto. Qed.
Lemma lookup_in {A} (d : list (string * A)) k v : NoDup (map fst d) -> In (k, v) d -> lookup k d = Some v.
Proof. induction d as [|[k0 v0] t IH]; simpl; intros ND H; [tauto|]. inversion ND as [|? ? N1 N2]; subst.
  destruct H as [H|H].
  - inversion H; subst. rewrite String.eqb_refl. reflexivity.
  - destruct (String.eqb k k0) eqn:E.
    + apply String.eqb_eq in E; subst. exfalso. apply N1. apply (in_map fst) in H. exact H.
    + apply IH; assumption. Qed.

(** * pack_attrs / unpack_attrs *)
Section Codec.
Context {T : Type}.
Variables (txt ttxt : Type) (ydump : yv T -> txt) (yload : txt -> option (yv T))
          (tdump : table T -> ttxt) (tload : ttxt -> table T).
(** the PyYAML oracle: plain values and the _attr_coords table survive dump / load
    (key order of the table included: the repaired pack_attrs dumps it with sort_keys=False) *)
Hypothesis yaml_value : forall y, yload (ydump y) = Some y.
Hypothesis yaml_table : forall t, tload (tdump t) = t.

(** a labelled array without dimensions holds exactly one number *)
Definition arr_wf (v : aval T) : Prop :=
  match v with AArr a => a_dims a = [] -> exists x, a_data a = [x] | _ => True end.
Definition attrs_ok (a : attrs T) : Prop :=
  NoDup (map fst a) /\ (forall k, In k (map fst a) -> ignored k = false) /\ Forall (fun kv => arr_wf (snd kv)) a.

Definition items (a : attrs T) := somes (map snd (map (pack_entry txt ydump) a)).

Lemma pack_entry_key kv : fst (fst (pack_entry txt ydump kv)) = fst kv.
Proof. unfold pack_entry, pack_entry_asis. simpl. destruct (demote (snd kv)); reflexivity. Qed.
Lemma pack_entry_item_key kv x : snd (pack_entry txt ydump kv) = Some x -> fst x = fst kv.
Proof. unfold pack_entry, pack_entry_asis. simpl. destruct (demote (snd kv)); intros H; inversion H; reflexivity. Qed.

Lemma items_keys a k : In k (map fst (items a)) -> In k (map fst a).
Proof. unfold items. induction a as [|kv t IH]; simpl; [tauto|].
  destruct (snd (pack_entry txt ydump kv)) as [x|] eqn:E; simpl.
  - intros [H|H]; [left; rewrite <- H; symmetry; apply pack_entry_item_key; exact E|right; apply IH, H].
  - intros H; right; apply IH, H. Qed.

Lemma lookup_items a kv : NoDup (map fst a) -> In kv a ->
  lookup (fst kv) (items a) = option_map snd (snd (pack_entry txt ydump kv)).
Proof. unfold items. induction a as [|kv0 t IH]; simpl; intros ND H; [tauto|].
  inversion ND as [|? ? N1 N2]; subst. destruct H as [H|H].
  - subst kv0. destruct (snd (pack_entry txt ydump kv)) as [x|] eqn:E; simpl.
    + destruct x as [kx vx]. pose proof (pack_entry_item_key _ _ E) as K. simpl in K. subst kx.
      rewrite String.eqb_refl. reflexivity.
    + apply lookup_notin. intros C. apply N1. apply items_keys. exact C.
  - assert (NE : fst kv <> fst kv0) by (intros C; apply N1; rewrite <- C; apply in_map, H).
    destruct (snd (pack_entry txt ydump kv0)) as [x|] eqn:E; simpl.
    + destruct x as [kx vx]. pose proof (pack_entry_item_key _ _ E) as K. simpl in K. subst kx.
      apply String.eqb_neq in NE. rewrite NE. apply IH; assumption.
    + apply IH; assumption. Qed.

Lemma unpack_entry_pack a kv : NoDup (map fst a) -> In kv a -> arr_wf (snd kv) ->
  unpack_entry txt yload (items a) (fst (pack_entry txt ydump kv)) = Some (fst kv, demote (snd kv)).
Proof. intros ND HI WF. unfold unpack_entry. rewrite pack_entry_key, (lookup_items a kv ND HI).
  destruct kv as [k v]. unfold pack_entry, pack_entry_asis. simpl in *.
  destruct v as [|y|[ds dat]]; simpl.
  - reflexivity.
  - rewrite yaml_value. reflexivity.
  - destruct ds as [|d0 dr]; simpl.
    + destruct (WF eq_refl) as [x Hx]. simpl in Hx. subst dat. simpl. rewrite yaml_value. reflexivity.
    + reflexivity. Qed.

Lemma sequence_map {A B} (f : A -> option B) (g : A -> B) l :
  (forall x, In x l -> f x = Some (g x)) -> sequence (map f l) = Some (map g l).
Proof. induction l as [|x t IH]; simpl; intros H; [reflexivity|].
  rewrite (H x (or_introl eq_refl)), IH; [reflexivity|]. intros y Hy. apply H. right; exact Hy. Qed.

Lemma filter_all {A} (p : A -> bool) l : (forall x, In x l -> p x = true) -> filter p l = l.
Proof. induction l as [|x t IH]; simpl; intros H; [reflexivity|].
  rewrite (H x (or_introl eq_refl)), IH; [reflexivity|]. intros y Hy; apply H; right; exact Hy. Qed.

Definition demote_all (a : attrs T) : attrs T := map (fun kv => (fst kv, demote (snd kv))) a.

Lemma unpack_pack_attrs nm sp a : attrs_ok a ->
  unpack_attrs txt ttxt yload tload (pack_attrs txt ttxt ydump tdump nm sp a) = Some (demote_all a).
Proof. intros [ND [IG WF]]. unfold unpack_attrs, pack_attrs, pack_with. cbn [p_table p_items].
  rewrite yaml_table. rewrite filter_all.
  - fold (items a). rewrite !map_map. unfold demote_all.
    apply (sequence_map (fun x => unpack_entry txt yload (items a) (fst (pack_entry txt ydump x)))).
    intros kv Hkv. apply unpack_entry_pack; [exact ND|exact Hkv|].
    rewrite Forall_forall in WF. apply WF, Hkv.
  - intros e He. rewrite in_map_iff in He. destruct He as [pe [E1 He]]. rewrite in_map_iff in He.
    destruct He as [kv [E2 Hkv]]. subst pe e. rewrite pack_entry_key. rewrite IG; [reflexivity|].
    apply in_map, Hkv. Qed.

Lemma demote_idem (v : aval T) : demote (demote v) = demote v.
Proof. destruct v as [|y|[ds dat]]; try reflexivity. simpl.
  destruct ds; [destruct dat as [|x [|]]|]; reflexivity. Qed.
Lemma demote_all_idem a : demote_all (demote_all a) = demote_all a.
Proof. unfold demote_all. rewrite map_map. apply map_ext. intros [k v]. simpl. rewrite demote_idem. reflexivity. Qed.
Lemma demote_wf (v : aval T) : arr_wf v -> arr_wf (demote v).
Proof. destruct v as [|y|[ds dat]]; simpl; try (intros; exact I).
  intros WF. destruct ds as [|d0 dr]; simpl.
  - destruct (WF eq_refl) as [x ->]. simpl. exact I.
  - simpl. intros C; discriminate. Qed.
Lemma demote_all_ok a : attrs_ok a -> attrs_ok (demote_all a).
Proof. intros [ND [IG WF]]. unfold attrs_ok, demote_all. rewrite map_map. simpl.
  split; [exact ND|]. split; [exact IG|]. rewrite Forall_map. simpl.
  eapply Forall_impl; [|exact WF]. intros kv H. apply demote_wf, H. Qed.

(** hp.save / hp.load through HDF5 *)
Lemma h5_roundtrip stem im : attrs_ok (i_attrs im) ->
  load_h5 txt ttxt yload tload (save_h5 txt ttxt ydump tdump stem im) = Some (normal stem im).
Proof. intros OK. unfold load_h5, save_h5. cbn [f_attrs f_var f_coords f_vals].
  rewrite unpack_pack_attrs by exact OK. reflexivity. Qed.

Lemma normal_idem stem stem' (im : image T) : normal stem' (normal stem im) = normal stem im.
Proof. unfold normal. cbn [i_name i_coords i_vals i_attrs default_name].
  f_equal. fold (demote_all (i_attrs im)). fold (demote_all (demote_all (i_attrs im))).
  apply demote_all_idem. Qed.

Lemma h5_cycles n stem im : attrs_ok (i_attrs im) ->
  cycles txt ttxt ydump yload tdump tload (S n) stem im = Some (normal stem im).
Proof. revert im. induction n as [|n IH]; intros im OK.
  - simpl. rewrite h5_roundtrip by exact OK. reflexivity.
  - change (cycles txt ttxt ydump yload tdump tload (S (S n)) stem im) with
      (match load_h5 txt ttxt yload tload (save_h5 txt ttxt ydump tdump stem im) with
       | Some im' => cycles txt ttxt ydump yload tdump tload (S n) stem im' | None => None end).
    rewrite h5_roundtrip by exact OK. rewrite IH.
    + rewrite normal_idem. reflexivity.
    + unfold normal. cbn [i_attrs]. apply (demote_all_ok _ OK). Qed.
End Codec.

(** * update_metadata *)
Section Upd.
Context {T : Type}.
Lemma lookup_upd1 (d : attrs T) kv k :
  lookup k (upd1 d kv) = match snd kv with
                         | ANone => lookup k d
                         | v => if String.eqb k (fst kv) then Some v else lookup k d end.
Proof. unfold upd1. destruct (snd kv); try reflexivity; apply lookup_dset. Qed.

Definition is_none (v : aval T) : bool := match v with ANone => true | _ => false end.

Lemma lookup_updated (upd d : attrs T) k : NoDup (map fst upd) ->
  lookup k (updated d upd) = match lookup k upd with
                             | Some v => if is_none v then lookup k d else Some v
                             | None => lookup k d end.
Proof. unfold updated. revert d. induction upd as [|[k0 v0] t IH]; intros d ND; simpl; [reflexivity|].
  inversion ND as [|? ? N1 N2]; subst. rewrite IH by exact N2. rewrite lookup_upd1. simpl.
  destruct (String.eqb k k0) eqn:E.
  - apply String.eqb_eq in E; subst k0. rewrite (lookup_notin t k N1). destruct v0; reflexivity.
  - destruct (lookup k t) as [v|]; [destruct (is_none v)|]; destruct v0; reflexivity. Qed.

Lemma lookup_ensure (d : attrs T) k0 k :
  lookup k (ensure_key d k0) = match lookup k d with Some v => Some v
                               | None => if String.eqb k k0 then Some ANone else None end.
Proof. unfold ensure_key, has_key. destruct (lookup k0 d) as [v0|] eqn:E0.
  - destruct (lookup k d) eqn:E; [reflexivity|]. destruct (String.eqb k k0) eqn:EE; [|reflexivity].
    apply String.eqb_eq in EE; subst. congruence.
  - rewrite lookup_app. destruct (lookup k d); [reflexivity|]. simpl. destruct (String.eqb k k0); reflexivity. Qed.

Lemma lookup_ensure_all ks (d : attrs T) k :
  lookup k (fold_left ensure_key ks d) = match lookup k d with Some v => Some v
                                         | None => if existsb (String.eqb k) ks then Some ANone else None end.
Proof. revert d. induction ks as [|k0 t IH]; intros d; simpl.
  - destruct (lookup k d); reflexivity.
  - rewrite IH, lookup_ensure. destruct (lookup k d); [reflexivity|].
    destruct (String.eqb k k0); simpl; [destruct (existsb (String.eqb k) t); reflexivity|reflexivity]. Qed.

Definition upd_list (mi wl pol ns : aval T) : attrs T :=
  [("medium_index", mi); ("illum_wavelen", wl); ("illum_polarization", pol); ("noise_sd", ns)].
Lemma upd_list_nodup mi wl pol ns : NoDup (map fst (upd_list mi wl pol ns)).
Proof. simpl. repeat constructor; simpl; intuition discriminate. Qed.

(** the complete lookup semantics of update_metadata's attribute dictionary *)
Lemma update_attrs_lookup (a : attrs T) mi wl pol ns k :
  lookup k (update_attrs a mi wl pol ns) =
  match lookup k (upd_list mi wl pol ns) with
  | Some v => if is_none v then (match lookup k a with Some x => Some x | None => Some ANone end) else Some v
  | None => lookup k a
  end.
Proof. unfold update_attrs. rewrite lookup_ensure_all. fold (upd_list mi wl pol ns).
  rewrite lookup_updated by apply upd_list_nodup.
  unfold upd_list, meta_keys. simpl.
  destruct (String.eqb k "medium_index") eqn:E1; [destruct mi; simpl; try reflexivity; destruct (lookup k a); reflexivity|].
  destruct (String.eqb k "illum_wavelen") eqn:E2; [destruct wl; simpl; try reflexivity; destruct (lookup k a); reflexivity|].
  destruct (String.eqb k "illum_polarization") eqn:E3; [destruct pol; simpl; try reflexivity; destruct (lookup k a); reflexivity|].
  destruct (String.eqb k "noise_sd") eqn:E4; [destruct ns; simpl; try reflexivity; destruct (lookup k a); reflexivity|].
  simpl. destruct (lookup k a); reflexivity. Qed.

Lemma update_attrs_other (a : attrs T) mi wl pol ns k : ~ In k meta_keys ->
  lookup k (update_attrs a mi wl pol ns) = lookup k a.
Proof. intros H. rewrite update_attrs_lookup. unfold upd_list. simpl.
  unfold meta_keys in H. simpl in H.
  destruct (String.eqb k "medium_index") eqn:E1; [apply String.eqb_eq in E1; subst; tauto|].
  destruct (String.eqb k "illum_wavelen") eqn:E2; [apply String.eqb_eq in E2; subst; tauto|].
  destruct (String.eqb k "illum_polarization") eqn:E3; [apply String.eqb_eq in E3; subst; tauto|].
  destruct (String.eqb k "noise_sd") eqn:E4; [apply String.eqb_eq in E4; subst; tauto|]. reflexivity. Qed.
End Upd.

Lemma update_only_named_lemma {T} (O : Ops T) sqrtO (im b : image T) mi wl pol ns :
  update_metadata O sqrtO im mi wl pol ns = Some b ->
  i_name b = i_name im /\ i_coords b = i_coords im /\ i_vals b = i_vals im /\
  (forall k, ~ In k meta_keys -> lookup k (i_attrs b) = lookup k (i_attrs im)) /\
  (forall k, In k meta_keys -> exists v, lookup k (i_attrs b) = Some v).
Proof. unfold update_metadata, update_metadata_with.
  destruct (conv_arg O (i_coords im) wl) as [w|]; [|discriminate].
  destruct (conv_pol O (i_coords im) _ pol) as [p|]; [|discriminate].
  destruct (conv_arg O (i_coords im) ns) as [n|]; [|discriminate].
  intros H; inversion H; subst b; clear H. unfold with_attrs. cbn [i_name i_coords i_vals i_attrs].
  repeat split; try reflexivity.
  - intros k Hk. apply update_attrs_other, Hk.
  - intros k Hk. rewrite update_attrs_lookup. unfold meta_keys in Hk. simpl in Hk.
    destruct Hk as [<-|[<-|[<-|[<-|[]]]]]; simpl.
    + destruct (medium_arg mi); simpl; eauto; destruct (lookup _ _); eauto.
    + destruct w; simpl; eauto; destruct (lookup _ _); eauto.
    + destruct p; simpl; eauto; destruct (lookup _ _); eauto.
    + destruct n; simpl; eauto; destruct (lookup _ _); eauto. Qed.

(** a field whose argument is None keeps its old value (None when it had none); a given one is set *)
Lemma update_named_lemma {T} (O : Ops T) sqrtO (im b : image T) mi wl pol ns :
  update_metadata O sqrtO im mi wl pol ns = Some b ->
  let old k := match lookup k (i_attrs im) with Some x => x | None => ANone end in
  lookup "medium_index" (i_attrs b) = Some (match mi with Some y => AVal y | None => old "medium_index" end) /\
  (wl = UNone -> lookup "illum_wavelen" (i_attrs b) = Some (old "illum_wavelen")) /\
  (pol = PNone -> lookup "illum_polarization" (i_attrs b) = Some (old "illum_polarization")) /\
  (ns = UNone -> lookup "noise_sd" (i_attrs b) = Some (old "noise_sd")) /\
  (forall y, wl = UVal y -> lookup "illum_wavelen" (i_attrs b) = Some (AVal y)) /\
  (forall y, ns = UVal y -> lookup "noise_sd" (i_attrs b) = Some (AVal y)) /\
  (forall a, wl = UArr a -> lookup "illum_wavelen" (i_attrs b) = Some (AArr a)) /\
  (forall a, pol = PArr a -> lookup "illum_polarization" (i_attrs b) = Some (AArr a)).
Proof. unfold update_metadata, update_metadata_with.
  destruct (conv_arg O (i_coords im) wl) as [w|] eqn:Ew; [|discriminate].
  destruct (conv_pol O (i_coords im) _ pol) as [p|] eqn:Ep; [|discriminate].
  destruct (conv_arg O (i_coords im) ns) as [n|] eqn:En; [|discriminate].
  intros H; inversion H; subst b; clear H. unfold with_attrs. cbn [i_attrs]. cbv zeta.
  repeat split; intros; subst; simpl in *;
    repeat match goal with H : Some _ = Some _ |- _ => inversion H; subst; clear H end;
    rewrite update_attrs_lookup; simpl; try reflexivity.
  - destruct mi; simpl; [reflexivity|]. destruct (lookup _ _); reflexivity.
  - destruct (lookup _ _); reflexivity.
  - destruct (lookup _ _); reflexivity.
  - destruct (lookup _ _); reflexivity. Qed.

(** purity at the level of Python objects: the call allocates its result, every existing object is untouched *)
Lemma um_heap_pure {T} (O : Ops T) sqrtO h addr mi wl pol ns h' r :
  um_heap O sqrtO h addr mi wl pol ns = (h', r) ->
  (forall i, (i < List.length h)%nat -> nth_error h' i = nth_error h i) /\
  (forall j, r = Some j -> exists im b, nth_error h addr = Some im /\ nth_error h' j = Some b /\
                          update_metadata O sqrtO im mi wl pol ns = Some b /\ (List.length h <= j)%nat).
Proof. unfold um_heap. destruct (nth_error h addr) as [im|] eqn:E.
  - destruct (update_metadata O sqrtO im mi wl pol ns) as [b|] eqn:U; intros H; inversion H; subst; clear H.
    + split.
      * intros i Hi. apply nth_error_app1, Hi.
      * intros j Hj. inversion Hj; subst. exists im, b. repeat split; try assumption.
        -- rewrite nth_error_app2 by lia. rewrite Nat.sub_diag. reflexivity.
        -- lia.
    + split; [reflexivity|discriminate].
  - intros H; inversion H; subst. split; [reflexivity|discriminate]. Qed.

(** * to_vector: unit length *)
Local Open Scope R_scope.
Lemma to_vector_unit_lemma (c : list R) : (List.length (pad3 RO c) = 3)%nat -> sumsq RO (pad3 RO c) <> 0 ->
  exists a, to_vector RO sqrt c = Some a /\
            a_dims a = [("vector", xyz)] /\
            a_data a = map (fun x => x / sqrt (sumsq RO (pad3 RO c))) (pad3 RO c) /\
            0 < sqrt (sumsq RO (pad3 RO c)) /\
            sumsq RO (a_data a) = 1.
Proof. intros HL HS. unfold to_vector, to_vector_with. rewrite HL. simpl Nat.eqb. cbv iota.
  eexists. split; [reflexivity|]. cbn [a_dims a_data]. split; [reflexivity|]. split; [reflexivity|].
  remember (pad3 RO c) as c3. destruct c3 as [|x [|y [|z [|]]]]; try discriminate.
  unfold sumsq, sq in *. simpl in *. ro.
  set (s := x * x + (y * y + (z * z + 0))) in *.
  assert (Hs : 0 < s). { assert (0 <= s) by (unfold s; nra). lra. }
  pose proof (sqrt_lt_R0 s Hs) as Hq. pose proof (sqrt_sqrt s (Rlt_le _ _ Hs)) as Hqq.
  split; [exact Hq|].
  unfold Rdiv. replace (x * / sqrt s * (x * / sqrt s) + (y * / sqrt s * (y * / sqrt s) + (z * / sqrt s * (z * / sqrt s) + 0)))
    with (s * (/ sqrt s * / sqrt s)) by (unfold s; ring).
  rewrite <- Rinv_mult. rewrite Hqq. field. lra. Qed.

Lemma pad3_len (c : list R) : (List.length c = 2 \/ List.length c = 3)%nat -> (List.length (pad3 RO c) = 3)%nat.
Proof. destruct c as [|a [|b [|d [|]]]]; simpl; intros [H|H]; try discriminate; reflexivity. Qed.

(** * dict_to_array: the dimension chosen carries exactly the dictionary's keys *)
Lemma label_eqb_eq (a b : label R) : label_eqb RO a b = true -> a = b.
Proof. destruct a, b; simpl; intros H; try discriminate.
  - apply String.eqb_eq in H. subst; reflexivity.
  - apply Reqb_true in H. subst; reflexivity. Qed.
Lemma remove1_perm x (l r : list (label R)) : remove1 RO x l = Some r -> Permutation l (x :: r).
Proof. revert r. induction l as [|y t IH]; simpl; intros r H; [discriminate|].
  destruct (label_eqb RO x y) eqn:E.
  - apply label_eqb_eq in E. inversion H; subst. apply Permutation_refl.
  - destruct (remove1 RO x t) as [r'|]; [|discriminate]. inversion H; subst.
    eapply Permutation_trans; [apply perm_skip, IH; reflexivity|apply perm_swap]. Qed.
Lemma perm_eqb_sound (a b : list (label R)) : perm_eqb RO a b = true -> Permutation a b.
Proof. revert b. induction a as [|x t IH]; simpl; intros b H.
  - destruct b; [constructor|discriminate].
  - destruct (remove1 RO x b) as [b'|] eqn:E; [|discriminate].
    apply Permutation_sym. eapply Permutation_trans; [apply remove1_perm, E|]. apply perm_skip, Permutation_sym, IH, H. Qed.
Lemma find_dim_sound coords (keys : list (label R)) nm : find_dim RO coords keys = Some nm ->
  exists ls, In (nm, ls) coords /\ Permutation keys ls.
Proof. induction coords as [|[n ls] t IH]; simpl; [discriminate|].
  destruct (perm_eqb RO keys ls) eqn:E.
  - intros H; inversion H; subst. exists ls. split; [left; reflexivity|apply perm_eqb_sound, E].
  - intros H. destruct (IH H) as [l [A B]]. exists l. split; [right; exact A|exact B]. Qed.

Lemma dict_to_array_lemma coords (l : list (label R * R)) v : conv_arg RO coords (UDict l) = Some v ->
  exists nm ls, v = AArr (mkArr [(nm, map fst l)] (map snd l)) /\ In (nm, ls) coords /\ Permutation (map fst l) ls.
Proof. simpl. destruct (find_dim RO coords (map fst l)) as [nm|] eqn:E; [|discriminate].
  intros H; inversion H; subst. destruct (find_dim_sound _ _ _ E) as [ls [A B]]. exists nm, ls. auto. Qed.

(** * pixel coordinates *)
Lemma axis_length {T} (O : Ops T) n s : List.length (axis O n s) = n.
Proof. unfold axis. rewrite map_length, seq_length. reflexivity. Qed.
Lemma map_nth_in {A B} (f : A -> B) l i da db : (i < List.length l)%nat -> nth i (map f l) db = f (nth i l da).
Proof. intros H. rewrite (nth_indep _ db (f da)) by (rewrite map_length; exact H). apply map_nth. Qed.
Lemma axis_nth n s i : (i < n)%nat -> nth i (axis RO n s) 0 = INR i * s.
Proof. intros H. unfold axis. rewrite (map_nth_in _ (seq 0 n) i 0%nat 0) by (rewrite seq_length; exact H).
  rewrite seq_nth by exact H. simpl. unfold tnat; ro. rewrite INR_IZR_INZ. reflexivity. Qed.

(** * load_image channel selection *)
Lemma channel_select_lemma n (px : list (list (list R))) cs :
  cs <> [] -> Forall (fun c => (c < n)%nat) cs ->
  exists labels sel, load_channels RO (RColour n px) (CList cs) = LOk labels sel /\
    List.length sel = List.length px /\
    (forall i j k, (i < List.length px)%nat -> (j < List.length (nth i px []))%nat -> (k < List.length cs)%nat ->
        nth k (nth j (nth i sel []) []) 0 = nth (nth k cs 0%nat) (nth j (nth i px []) []) 0) /\
    (labels = None <-> List.length cs = 1%nat) /\
    ((1 < List.length cs)%nat -> Forall (fun c => (c <= 2)%nat) cs -> labels = Some (map rgb_name cs)).
Proof. intros Hne Hlt. unfold load_channels.
  assert (E : existsb (fun c => Nat.leb n c) cs = false).
  { apply not_true_is_false. intros C. apply existsb_exists in C. destruct C as [c [Hc Hle]].
    rewrite Forall_forall in Hlt. specialize (Hlt c Hc). apply Nat.leb_le in Hle. lia. }
  rewrite E. eexists. eexists. split; [reflexivity|]. split; [apply map_length|]. split; [|split].
  - intros i j k Hi Hj Hk. rewrite (map_nth_in _ px i [] []) by exact Hi.
    rewrite (map_nth_in _ (nth i px []) j [] []) by exact Hj.
    rewrite (map_nth_in _ cs k 0%nat 0) by exact Hk. reflexivity.
  - destruct (Nat.ltb 1 (List.length cs)) eqn:EL.
    + apply Nat.ltb_lt in EL. split; [discriminate|lia].
    + apply Nat.ltb_ge in EL. split; [|reflexivity]. intros _. destruct cs; [congruence|simpl in *; lia].
  - intros H1 H2. apply Nat.ltb_lt in H1. rewrite H1.
    assert (E2 : forallb (fun c => Nat.leb c 2) cs = true).
    { apply forallb_forall. intros c Hc. rewrite Forall_forall in H2. apply Nat.leb_le, H2, Hc. }
    rewrite E2. reflexivity. Qed.

Lemma channel_errors_lemma n (px : list (list (list R))) cs c g ch :
  load_channels RO (RColour n px) CNone = LBadImage /\
  (In c cs -> (n <= c)%nat -> load_channels RO (RColour n px) (CList cs) = LLoadError) /\
  load_channels RO (RGrey g) ch = LOk None (map (map (fun v => [v])) g) /\
  load_channels RO (RColour n px) CAll = load_channels RO (RColour n px) (CList (seq 0 n)).
Proof. split; [reflexivity|]. split; [|split; [reflexivity|reflexivity]].
  intros Hc Hle. unfold load_channels.
  assert (E : existsb (fun c => Nat.leb n c) cs = true).
  { apply existsb_exists. exists c. split; [exact Hc|apply Nat.leb_le, Hle]. }
  rewrite E. reflexivity. Qed.

(** * load_average *)
Lemma series_perm (imgs imgs' : list (list R)) p : Permutation imgs imgs' ->
  Permutation (series RO imgs p) (series RO imgs' p).
Proof. intros H. unfold series. apply Permutation_map, H. Qed.

Lemma avg_image_is_mean (imgs : list (list R)) npix p : imgs <> [] -> (p < npix)%nat ->
  nth p (avg_image RO imgs npix) 0 = tmean RO (series RO imgs p) /\
  nth p (var_image RO imgs npix) None = Some (batch_var RO (series RO imgs p)).
Proof. intros Hne Hp. unfold avg_image, var_image.
  assert (Hs : series RO imgs p <> []) by (unfold series; destruct imgs; [congruence|simpl; congruence]).
  destruct (welford_mean_var _ Hs) as [A B]. split.
  - rewrite (map_nth_in _ (seq 0 npix) p 0%nat 0) by (rewrite seq_length; exact Hp).
    rewrite seq_nth by exact Hp. exact A.
  - rewrite (map_nth_in _ (seq 0 npix) p 0%nat None) by (rewrite seq_length; exact Hp).
    rewrite seq_nth by exact Hp. exact B. Qed.

Lemma noise_order_free_lemma (sqrtO : R -> R) (imgs imgs' : list (list R)) npix : Permutation imgs imgs' ->
  avg_image RO imgs npix = avg_image RO imgs' npix /\
  var_image RO imgs npix = var_image RO imgs' npix /\
  avg_noise RO sqrtO imgs npix = avg_noise RO sqrtO imgs' npix.
Proof. intros P.
  assert (K : forall p, acc_mean (push_all RO (series RO imgs p)) = acc_mean (push_all RO (series RO imgs' p)) /\
                        acc_var RO (push_all RO (series RO imgs p)) = acc_var RO (push_all RO (series RO imgs' p))).
  { intros p. apply welford_order, series_perm, P. }
  unfold avg_image, var_image, avg_noise. split; [|split].
  - apply map_ext. intros p. apply K.
  - apply map_ext. intros p. apply K.
  - f_equal. apply map_ext. intros p. destruct (K p) as [A B]. rewrite A, B. reflexivity. Qed.

(** * TIFF quantiser *)
Lemma Int_part_unique x k : IZR k <= x < IZR k + 1 -> Int_part x = k.
Proof. intros [A B]. destruct (base_Int_part x) as [C D].
  assert (H1 : (Int_part x < k + 1)%Z) by (apply lt_IZR; rewrite plus_IZR; lra).
  assert (H2 : (k < Int_part x + 1)%Z) by (apply lt_IZR; rewrite plus_IZR; lra). lia. Qed.

Lemma qmax_ge1 bits : (1 <= bits)%Z -> 1 <= IZR (qmax bits).
Proof. intros H. unfold qmax. apply IZR_le.
  assert (2 ^ 1 <= 2 ^ bits)%Z by (apply Z.pow_le_mono_r; lia). simpl in *. lia. Qed.

Lemma c499_val : c499 RO = 499999 / 1000000.
Proof. unfold c499; ro. reflexivity. Qed.

Lemma quantiser_error_lemma bits u : (1 <= bits)%Z -> 0 <= u <= 1 ->
  let q := quant RO Int_part bits u in let M := IZR (qmax bits) in
  (0 <= q <= qmax bits)%Z /\ Rabs (IZR q / M - u) <= (1 / 2 + 1 / 1000000) / M.
Proof. intros Hb Hu. cbv zeta. pose proof (qmax_ge1 bits Hb) as HM.
  unfold quant. ro. rewrite c499_val. set (M := IZR (qmax bits)) in *.
  set (q := Int_part (u * M + 499999 / 1000000)).
  destruct (base_Int_part (u * M + 499999 / 1000000)) as [A B]. fold q in A, B.
  assert (HuM : 0 <= u * M <= M) by nra.
  split.
  - split.
    + assert (-1 < q)%Z by (apply lt_IZR; lra). lia.
    + assert (q < qmax bits + 1)%Z by (apply lt_IZR; rewrite plus_IZR; fold M; lra). lia.
  - assert (E : IZR q / M - u = (IZR q - u * M) / M) by (field; lra). rewrite E.
    unfold Rdiv at 1. rewrite Rabs_mult. rewrite (Rabs_right (/ M)) by (apply Rle_ge, Rlt_le, Rinv_0_lt_compat; lra).
    unfold Rdiv. apply Rmult_le_compat_r; [apply Rlt_le, Rinv_0_lt_compat; lra|].
    apply Rabs_le. lra. Qed.

Lemma quant_endpoints_lemma bits : (1 <= bits)%Z ->
  quant RO Int_part bits 0 = 0%Z /\ quant RO Int_part bits 1 = qmax bits.
Proof. intros Hb. pose proof (qmax_ge1 bits Hb) as HM. unfold quant; ro. rewrite c499_val. split.
  - apply Int_part_unique. lra.
  - apply Int_part_unique. lra. Qed.

Lemma quant_monotone_lemma bits u v : (1 <= bits)%Z -> u <= v ->
  (quant RO Int_part bits u <= quant RO Int_part bits v)%Z.
Proof. intros Hb H. pose proof (qmax_ge1 bits Hb) as HM. unfold quant; ro.
  set (x := u * IZR (qmax bits) + c499 RO). set (y := v * IZR (qmax bits) + c499 RO).
  assert (x <= y) by (unfold x, y; nra).
  destruct (base_Int_part x) as [A B]. destruct (base_Int_part y) as [C D].
  assert (Int_part x < Int_part y + 1)%Z by (apply lt_IZR; rewrite plus_IZR; lra). lia. Qed.

Lemma scale01_range lo hi v : lo < hi -> lo <= v <= hi ->
  scale01 RO lo hi v = (v - lo) / (hi - lo) /\ 0 <= (v - lo) / (hi - lo) <= 1.
Proof. intros H Hv. unfold scale01, clip, tmax, tmin; ro.
  destruct (Rltb v lo) eqn:E1; [apply Rltb_true in E1; lra|].
  destruct (Rltb hi v) eqn:E2; [apply Rltb_true in E2; lra|].
  split; [reflexivity|]. assert (0 < / (hi - lo)) by (apply Rinv_0_lt_compat; lra).
  unfold Rdiv. split; [apply Rmult_le_pos; lra|].
  replace 1 with ((hi - lo) * / (hi - lo)) by (field; lra). apply Rmult_le_compat_r; lra. Qed.

(** values outside the requested range are clipped to it before quantisation *)
Lemma scale01_clips lo hi v : lo < hi ->
  (v <= lo -> scale01 RO lo hi v = 0) /\ (hi <= v -> scale01 RO lo hi v = 1).
Proof. intros H. unfold scale01, clip, tmax, tmin; ro. split; intros Hv.
  - destruct (Rltb v lo) eqn:E1.
    + destruct (Rltb hi lo) eqn:E2; [apply Rltb_true in E2; lra|]. field; lra.
    + apply Rltb_false in E1. assert (v = lo) by lra. subst.
      destruct (Rltb hi lo) eqn:E2; [apply Rltb_true in E2; lra|]. field; lra.
  - destruct (Rltb v lo) eqn:E1; [apply Rltb_true in E1; lra|].
    destruct (Rltb hi v) eqn:E2; [field; lra|]. apply Rltb_false in E2. assert (v = hi) by lra. subst. field; lra. Qed.

Lemma tiff_roundtrip_error_lemma bits lo hi v : (1 <= bits)%Z -> lo < hi -> lo <= v <= hi ->
  Rabs (tiff_load RO 0 (qmax bits) lo hi (tiff_store RO Int_part bits lo hi v) - v)
    <= (hi - lo) * ((1 / 2 + 1 / 1000000) / IZR (qmax bits)).
Proof. intros Hb H Hv. destruct (scale01_range lo hi v H Hv) as [E R]. unfold tiff_store. rewrite E.
  set (u := (v - lo) / (hi - lo)) in *.
  destruct (quantiser_error_lemma bits u Hb R) as [_ Q]. cbv zeta in Q.
  pose proof (qmax_ge1 bits Hb) as HM. set (M := IZR (qmax bits)) in *. set (q := quant RO Int_part bits u) in *.
  unfold tiff_load; ro. fold M.
  replace ((IZR q - 0) * (hi - lo) * / (M - 0) + lo - v) with ((hi - lo) * (IZR q / M - u)) by (unfold u; field; lra).
  rewrite Rabs_mult, (Rabs_right (hi - lo)) by lra. apply Rmult_le_compat_l; [lra|exact Q]. Qed.

(** the executed instance (Q, Qfloor) computes the same integer as the real-number quantiser *)
Lemma Qfloor_Int_part (x : Q) : Int_part (Q2R x) = Qfloor x.
Proof. apply Int_part_unique. split.
  - rewrite <- Q2R_inject_Z. apply Qle_Rle, Qfloor_le.
  - replace (IZR (Qfloor x) + 1) with (Q2R (inject_Z (Qfloor x + 1))) by (rewrite Q2R_inject_Z, plus_IZR; reflexivity).
    apply Qlt_Rlt, Qlt_floor. Qed.
Lemma quant_Q_R bits (u : Q) : quant QO Qfloor bits u = quant RO Int_part bits (Q2R u).
Proof. unfold quant, c499. rewrite <- Qfloor_Int_part. f_equal. q2r.
  rewrite Q2R_inv; [q2r|]. intros C. apply Qeq_eqR in C. rewrite Q2R_inject_Z, Q2R_0 in C.
  apply eq_IZR in C. discriminate. Qed.

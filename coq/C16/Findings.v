(** C16 findings: models of the code as it stood, with computed witnesses (replayed on the implementation
    by harness/props/c16.py under the keys  io:attr-0d-array  and  io:attr-dims-order).
    The codec used for the witnesses is the ideal one (text = the value itself), so what fails is
    pack_attrs / unpack_attrs and not the yaml layer. *)
From Coq Require Import ZArith List Bool String QArith.
From HV Require Import Common.Generic C16.Model.
Import ListNotations.
Local Open Scope string_scope.




(** 1. pack_attrs stored a DataArray without dimensions (what load_average leaves in noise_sd for a
    single-channel average) with the table entry {} ; unpack_attrs reads {} as "not an array" and hands
    the stored list to yaml.safe_load, which raises: the saved file cannot be loaded at all. *)
Definition noise0 : attrs Q := [("medium_index", AVal (YNum (133 # 100))); ("noise_sd", AArr (mkArr [] [1 # 4]))].
Theorem zero_dim_array_refuted :
  unpack_attrs (yv Q) (table Q) Some idt (pack_attrs_asis (yv Q) (table Q) idy idt (Some "bg") None noise0) = None.
Proof. vm_compute. reflexivity. Qed.
(** the repaired pack_attrs stores the number *)
Example zero_dim_array_repaired :
  unpack_attrs (yv Q) (table Q) Some idt (pack_attrs (yv Q) (table Q) idy idt (Some "bg") None noise0)
  = Some [("medium_index", AVal (YNum (133 # 100))); ("noise_sd", AVal (YNum (1 # 4)))].
Proof. vm_compute. reflexivity. Qed.

(** 2. the _attr_coords table was dumped with yaml's default sort_keys=True, so the dimension ORDER of an
    array attribute came back sorted by name; the data are stored row-major in the original order.
    A polarization array given as (vector, illumination) is reloaded as (illumination, vector) with the
    same flat data, i.e. transposed labels (3x3: silently; other shapes: the load raises). *)
Fixpoint insert_dim (d : string * list (label Q)) (l : dimspec Q) : dimspec Q :=
  match l with [] => [d] | e :: t => if String.leb (fst d) (fst e) then d :: l else e :: insert_dim d t end.
Definition sort_dims (l : dimspec Q) : dimspec Q := fold_right insert_dim [] l.
Definition tload_sorted (t : table Q) : table Q := map (fun e => (fst e, option_map sort_dims (snd e))) t.
Definition rgb3 : list (label Q) := [LS "red"; LS "green"; LS "blue"].
Definition pol_vi : larr Q :=
  mkArr [("vector", xyz); ("illumination", rgb3)] [1; 0; 1 # 2;   0; 1; 1 # 2;   0; 0; 0]%Q.
Theorem sorted_dims_refuted :
  unpack_attrs (yv Q) (table Q) Some tload_sorted
     (pack_attrs (yv Q) (table Q) idy idt None None [("illum_polarization", AArr pol_vi)])
  = Some [("illum_polarization", AArr (mkArr [("illumination", rgb3); ("vector", xyz)] (a_data pol_vi)))]
  /\ a_dims pol_vi <> [("illumination", rgb3); ("vector", xyz)].
Proof. split; [vm_compute; reflexivity|discriminate]. Qed.

(** C16 - images through I/O and metadata edits.  Executable model (no proofs here).
    Anchors: core/io/io.py (pack_attrs / unpack_attrs / load / load_image / save / save_image /
    _save_im / load_average / Accumulator), core/metadata.py (update_metadata / to_vector /
    dict_to_array / make_coords / data_grid), core/utils.py (updated), core/io/vis.py (display_image
    scaling).
    Oracles (enter as Section variables, never as axioms): the PyYAML text layer ([ydump]/[yload] for
    attribute values, [tdump]/[tload] for the _attr_coords table), the HDF5 / TIFF containers (identity
    on what they are handed), numpy sqrt ([sqrtO]) and truncation towards zero of non-negative numbers
    ([floorO], instantiated by Int_part on R and Qfloor on Q).
    The Welford accumulator is the one of C18.Model (push / push_all / acc_mean / acc_var). *)
From Coq Require Import ZArith List Bool String.
From HV Require Import Common.Generic C18.Model.
Import ListNotations.
Local Open Scope string_scope.

Section Gen.
Context {T : Type} (O : Ops T).
Declare Scope t_scope. Delimit Scope t_scope with t.
Local Notation "x + y" := (add O x y) : t_scope. Local Notation "x * y" := (mul O x y) : t_scope.
Local Notation "x - y" := (sub O x y) : t_scope. Local Notation "- x" := (opp O x) : t_scope.
Local Notation "x / y" := (mul O x (inv O y)) : t_scope.
Local Notation "x <? y" := (ltb O x y) : t_scope. Local Notation "x <=? y" := (leb O x y) : t_scope.
Local Open Scope t_scope.

(** * Values *)
(** coordinate labels: strings ('red', 'x') or numbers (0, 1, 0.5); Python: 'red' != 0, 0 == 0.0 *)
Inductive label := LS (s : string) | LN (x : T).
Definition label_eqb (a b : label) : bool :=
  match a, b with LS x, LS y => String.eqb x y | LN x, LN y => eqb O x y | _, _ => false end.

(** labelled array (xr.DataArray used as an attribute): dims with their coordinate labels, row-major data *)
Record larr := mkArr { a_dims : list (string * list label); a_data : list T }.

(** what yaml carries for a non-array attribute: plain Python values (nested lists / dicts allowed) *)
Inductive yv :=
| YNum (x : T) | YInt (z : Z) | YBool (b : bool) | YStr (s : string)
| YSeq (l : list yv) | YMap (l : list (string * yv)).

(** attribute value: None | yaml-able value | labelled array *)
Inductive aval := ANone | AVal (y : yv) | AArr (a : larr).
Definition attrs : Type := list (string * aval).      (* a Python dict: insertion-ordered, keys distinct *)

Fixpoint lookup {A} (k : string) (d : list (string * A)) : option A :=
  match d with [] => None | (k', v) :: t => if String.eqb k k' then Some v else lookup k t end.
Definition has_key {A} (k : string) (d : list (string * A)) : bool :=
  match lookup k d with Some _ => true | None => false end.
(** d[k] = v : replace in place when present, append otherwise *)
Fixpoint dset {A} (d : list (string * A)) (k : string) (v : A) : list (string * A) :=
  match d with [] => [(k, v)] | (k', v') :: t => if String.eqb k k' then (k, v) :: t else (k', v') :: dset t k v end.

(** * pack_attrs / unpack_attrs *)
Definition dimspec : Type := list (string * list label).
(** _attr_coords : attr -> False | {dim: coords}   (None = False) *)
Definition table : Type := list (string * option dimspec).
Section Codec.
Variables (txt ttxt : Type) (ydump : yv -> txt) (yload : txt -> option yv)
          (tdump : table -> ttxt) (tload : ttxt -> table).

(** value stored under an attribute's own key: yaml text, or list(ensure_array(values)) *)
Inductive pval := PText (s : txt) | PData (d : list T).
Record packed := mkPacked {
  p_table : ttxt;                    (* new_attrs['_attr_coords'] = yaml.dump(table, flow style) *)
  p_name : option string;            (* new_attrs['name'] when a.name is not None *)
  p_spacing : option (T * T);        (* new_attrs['spacing'] when do_spacing (TIFF) *)
  p_items : list (string * pval) }.

(** repaired pack_attrs: a DataArray without dimensions is stored as the scalar it holds (val.item()).
    [pack_entry_asis] is the code as it stood, see Findings.v *)
Definition demote (v : aval) : aval :=
  match v with
  | AArr a => match a_dims a, a_data a with [], [x] => AVal (YNum x) | _, _ => v end
  | _ => v
  end.
Definition pack_entry_asis (kv : string * aval) : (string * option dimspec) * option (string * pval) :=
  match snd kv with
  | AArr a => ((fst kv, Some (a_dims a)), Some (fst kv, PData (a_data a)))
  | AVal y => ((fst kv, None), Some (fst kv, PText (ydump y)))
  | ANone => ((fst kv, None), None)
  end.
Definition pack_entry (kv : string * aval) := pack_entry_asis (fst kv, demote (snd kv)).
Fixpoint somes {A} (l : list (option A)) : list A :=
  match l with [] => [] | Some x :: t => x :: somes t | None :: t => somes t end.
Definition pack_with (pe : string * aval -> (string * option dimspec) * option (string * pval))
    (name : option string) (spacing : option (T * T)) (a : attrs) : packed :=
  let es := map pe a in mkPacked (tdump (map fst es)) name spacing (somes (map snd es)).
Definition pack_attrs := pack_with pack_entry.
Definition pack_attrs_asis := pack_with pack_entry_asis.

Definition ignored (k : string) : bool :=
  String.eqb k "spacing" || String.eqb k "name" || String.eqb k "_dummy_channel" || String.eqb k "_image_scaling".
(** one attribute of unpack_attrs; None = the call raises *)
Definition unpack_entry (items : list (string * pval)) (e : string * option dimspec) : option (string * aval) :=
  let k := fst e in
  match snd e with
  | Some ((_ :: _) as ds) =>                       (* "if attr_ref[attr]": a non-empty dict *)
      match lookup k items with Some (PData d) => Some (k, AArr (mkArr ds d)) | _ => None end
  | _ =>                                           (* False or {} *)
      match lookup k items with
      | Some (PText s) => option_map (fun y => (k, AVal y)) (yload s)
      | Some (PData _) => None                     (* yaml.safe_load of a non-string raises *)
      | None => Some (k, ANone)
      end
  end.
Fixpoint sequence {A} (l : list (option A)) : option (list A) :=
  match l with
  | [] => Some []
  | None :: _ => None
  | Some x :: t => match sequence t with Some r => Some (x :: r) | None => None end
  end.
Definition unpack_attrs (p : packed) : option attrs :=
  sequence (map (unpack_entry (p_items p)) (filter (fun e => negb (ignored (fst e))) (tload (p_table p)))).

(** ** images, hp.save / hp.load through HDF5 (the container is an oracle: identity on what it is handed) *)
Record image := mkImage {
  i_name : option string; i_coords : list (string * list label); i_vals : list T; i_attrs : attrs }.
Record h5file := mkH5 { f_var : string; f_coords : list (string * list label); f_vals : list T; f_attrs : packed }.
Definition default_name (stem : string) (n : option string) : string := match n with Some s => s | None => stem end.
Definition save_h5 (stem : string) (im : image) : h5file :=
  let nm := default_name stem (i_name im) in
  mkH5 nm (i_coords im) (i_vals im) (pack_attrs (Some nm) None (i_attrs im)).
Definition load_h5 (f : h5file) : option image :=
  option_map (mkImage (Some (f_var f)) (f_coords f) (f_vals f)) (unpack_attrs (f_attrs f)).
(** what one save/load cycle is allowed to change: an unnamed image takes the file's stem, a
    dimensionless array attribute becomes the scalar it holds *)
Definition normal (stem : string) (im : image) : image :=
  mkImage (Some (default_name stem (i_name im))) (i_coords im) (i_vals im)
          (map (fun kv => (fst kv, demote (snd kv))) (i_attrs im)).
Fixpoint cycles (n : nat) (stem : string) (im : image) : option image :=
  match n with
  | 0%nat => Some im
  | S m => match load_h5 (save_h5 stem im) with Some im' => cycles m stem im' | None => None end
  end.
End Codec.

(** * update_metadata *)
Definition sq (x : T) : T := x * x.
Definition sumsq (c : list T) : T := tsum O (map sq c).
Definition xyz : list label := [LS "x"; LS "y"; LS "z"].
Definition pad3 (c : list T) : list T := match c with [a; b] => [a; b; zero O] | _ => c end.
(** to_vector with the norm handed in (oracle leaf), then with the sqrt oracle *)
Definition to_vector_with (nrm : T) (c : list T) : option larr :=
  let c3 := pad3 c in
  if Nat.eqb (List.length c3) 3 then Some (mkArr [("vector", xyz)] (map (fun x => x / nrm) c3)) else None.
Definition to_vector (sqrtO : T -> T) (c : list T) : option larr := to_vector_with (sqrtO (sumsq (pad3 c))) c.

(** sorted(keys) == sorted(coords)  <=>  same multiset (labels of one coordinate are mutually comparable) *)
Fixpoint remove1 (x : label) (l : list label) : option (list label) :=
  match l with
  | [] => None
  | y :: t => if label_eqb x y then Some t else match remove1 x t with Some r => Some (y :: r) | None => None end
  end.
Fixpoint perm_eqb (a b : list label) : bool :=
  match a with
  | [] => match b with [] => true | _ => false end
  | x :: t => match remove1 x b with Some b' => perm_eqb t b' | None => false end
  end.
(** dict_to_array: first coordinate of the schema whose labels are the dict's keys *)
Fixpoint find_dim (coords : list (string * list label)) (keys : list label) : option string :=
  match coords with
  | [] => None
  | (nm, ls) :: t => if perm_eqb keys ls then Some nm else find_dim t keys
  end.

(** arguments of update_metadata *)
Inductive uarg := UNone | UVal (y : yv) | UArr (a : larr) | UDict (l : list (label * T)).
Inductive parg := PNone | PVec (c : list T) | PArr (a : larr) | PDict (l : list (label * list T)).
(** dict_to_array(a, inval) ; outer None = ValueError *)
Definition conv_arg (coords : list (string * list label)) (u : uarg) : option aval :=
  match u with
  | UNone => Some ANone
  | UVal y => Some (AVal y)
  | UArr a => Some (AArr a)
  | UDict l => match find_dim coords (map fst l) with
               | Some nm => Some (AArr (mkArr [(nm, map fst l)] (map snd l)))
               | None => None
               end
  end.
(** dict_to_array(a, to_vector(pol)) ; [norms] = the oracle's norm of each vector, in order *)
Fixpoint vec_rows (vs : list (list T)) (norms : list T) : option (list T) :=
  match vs, norms with
  | [], _ => Some []
  | v :: t, n :: nt => match to_vector_with n v, vec_rows t nt with
                       | Some a, Some r => Some (a_data a ++ r)%list | _, _ => None end
  | _ :: _, [] => None
  end.
Definition conv_pol (coords : list (string * list label)) (norms : list T) (p : parg) : option aval :=
  match p with
  | PNone => Some ANone
  | PArr a => Some (AArr a)                               (* hasattr(c, 'vector'): returned as is *)
  | PVec c => match norms with
              | n :: _ => option_map AArr (to_vector_with n c)
              | [] => None end
  | PDict l => match vec_rows (map snd l) norms, find_dim coords (map fst l) with
               | Some d, Some nm => Some (AArr (mkArr [(nm, map fst l); ("vector", xyz)] d))
               | _, _ => None
               end
  end.
Definition pol_norms (sqrtO : T -> T) (p : parg) : list T :=
  match p with
  | PVec c => [sqrtO (sumsq (pad3 c))]
  | PDict l => map (fun kv => sqrtO (sumsq (pad3 (snd kv)))) l
  | _ => []
  end.

(** utils.updated(d, update): None never overwrites *)
Definition upd1 (d : attrs) (kv : string * aval) : attrs :=
  match snd kv with ANone => d | v => dset d (fst kv) v end.
Definition updated (d upd : attrs) : attrs := fold_left upd1 upd d.
Definition ensure_key (d : attrs) (k : string) : attrs := if has_key k d then d else (d ++ [(k, ANone)])%list.
Definition meta_keys : list string := ["medium_index"; "illum_wavelen"; "illum_polarization"; "noise_sd"].
Definition update_attrs (a : attrs) (mi wl pol ns : aval) : attrs :=
  fold_left ensure_key meta_keys
    (updated a [("medium_index", mi); ("illum_wavelen", wl); ("illum_polarization", pol); ("noise_sd", ns)]).
Definition with_attrs (im : image) (a : attrs) : image := mkImage (i_name im) (i_coords im) (i_vals im) a.
Definition medium_arg (mi : option yv) : aval := match mi with Some y => AVal y | None => ANone end.
(** outer None = the call raises (no matching dimension / malformed vector) *)
Definition update_metadata_with (norms : list T) (im : image) (mi : option yv) (wl : uarg) (pol : parg) (ns : uarg)
  : option image :=
  match conv_arg (i_coords im) wl, conv_pol (i_coords im) norms pol, conv_arg (i_coords im) ns with
  | Some w, Some p, Some n => Some (with_attrs im (update_attrs (i_attrs im) (medium_arg mi) w p n))
  | _, _, _ => None
  end.
Definition update_metadata (sqrtO : T -> T) im mi wl pol ns :=
  update_metadata_with (pol_norms sqrtO pol) im mi wl pol ns.
(** the Python objects: "b = a.copy(); b.attrs = updated(b.attrs, ...)" allocates; nothing is written
    through [a].  heap = list of images, a call appends its result and returns its address *)
Definition um_heap (sqrtO : T -> T) (h : list image) (addr : nat) mi wl pol ns : list image * option nat :=
  match nth_error h addr with
  | Some im => match update_metadata sqrtO im mi wl pol ns with
               | Some b => ((h ++ [b])%list, Some (List.length h))
               | None => (h, None) end
  | None => (h, None)
  end.

(** * make_coords / data_grid coordinates: np.arange(n) * spacing *)
Definition axis (n : nat) (s : T) : list T := map (fun i => tnat O i * s) (seq 0 n).
Definition make_coords (nx ny : nat) (sx sy z : T) : list (string * list label) :=
  [("z", [LN z]); ("x", map LN (axis nx sx)); ("y", map LN (axis ny sy))].

(** * load_image: channel selection.  raster = rows of pixels, a pixel = its channel values *)
Inductive raster := RGrey (px : list (list T)) | RColour (nch : nat) (px : list (list (list T))).
Inductive chan := CNone | CAll | CList (l : list nat).
Inductive loaded := LBadImage | LLoadError | LOk (labels : option (list label)) (px : list (list (list T))).
Definition rgb_name (c : nat) : label := LS (nth c ["red"; "green"; "blue"] "").
Definition load_channels (r : raster) (ch : chan) : loaded :=
  match r with
  | RGrey px => LOk None (map (map (fun v => [v])) px)         (* channel ignored (warning) *)
  | RColour n px =>
      match ch with
      | CNone => LBadImage
      | _ => let cs := match ch with CList l => l | _ => seq 0 n end in
             if existsb (fun c => Nat.leb n c) cs then LLoadError
             else LOk (if Nat.ltb 1 (List.length cs)
                       then Some (if forallb (fun c => Nat.leb c 2) cs then map rgb_name cs
                                  else map (fun c => LN (tnat O c)) cs)
                       else None)
                      (map (map (fun p => map (fun c => nth c p (zero O)) cs)) px)
      end
  end.

(** * load_average: pixelwise Welford over the files, noise = mean over pixels of std/mean *)
Definition series (imgs : list (list T)) (p : nat) : list T := map (fun im => nth p im (zero O)) imgs.
Definition avg_image (imgs : list (list T)) (npix : nat) : list T :=
  map (fun p => acc_mean (push_all O (series imgs p))) (seq 0 npix).
Definition var_image (imgs : list (list T)) (npix : nat) : list (option T) :=
  map (fun p => acc_var O (push_all O (series imgs p))) (seq 0 npix).
Definition odflt (o : option T) : T := match o with Some x => x | None => zero O end.
(** noise_sd = (std_image / mean_image).mean()   (only when more than one file and none was given) *)
Definition avg_noise (sqrtO : T -> T) (imgs : list (list T)) (npix : nat) : T :=
  tmean O (map (fun p => sqrtO (odflt (acc_var O (push_all O (series imgs p))))
                         / acc_mean (push_all O (series imgs p))) (seq 0 npix)).
(** executable variant: the per-pixel std handed in by the oracle *)
Definition avg_noise_with (stds : list T) (imgs : list (list T)) (npix : nat) : T :=
  tmean O (map (fun ps => snd ps / acc_mean (push_all O (series imgs (fst ps)))) (combine (seq 0 npix) stds)).

(** * TIFF: display_image scaling, _save_im quantiser, load() rescaling *)
Variable floorO : T -> Z.                 (* astype(int) of a non-negative number *)
Definition tmax (a b : T) : T := if a <? b then b else a.      (* np.maximum *)
Definition tmin (a b : T) : T := if b <? a then b else a.      (* np.minimum *)
Definition clip (lo hi v : T) : T := tmin (tmax v lo) hi.
Definition scale01 (lo hi v : T) : T := (clip lo hi v - lo) / (hi - lo).
(** depth argument -> bits actually used (8 -> 8 / uint8, 16 -> 15 / int16, 32 -> 31 / int32) *)
Definition depth_bits (depth : Z) : option Z :=
  if Z.eqb depth 8 then Some 8%Z else if Z.eqb depth 16 then Some 15%Z else if Z.eqb depth 32 then Some 31%Z else None.
Definition qmax (bits : Z) : Z := (2 ^ bits - 1)%Z.
Definition c499 : T := ofZ O 499999 / ofZ O 1000000.
Definition quant (bits : Z) (u : T) : Z := floorO (u * ofZ O (qmax bits) + c499).
Definition tiff_store (bits : Z) (lo hi v : T) : Z := quant bits (scale01 lo hi v).
(** load(): (im - im.min()) * (smax - smin) / (im.max() - im.min()) + smin *)
Definition tiff_load (qlo qhi : Z) (lo hi : T) (q : Z) : T :=
  (ofZ O q - ofZ O qlo) * (hi - lo) / (ofZ O qhi - ofZ O qlo) + lo.
End Gen.

Arguments label T : clear implicits. Arguments larr T : clear implicits. Arguments yv T : clear implicits.
Arguments aval T : clear implicits. Arguments attrs T : clear implicits. Arguments dimspec T : clear implicits.
Arguments table T : clear implicits. Arguments image T : clear implicits. Arguments uarg T : clear implicits.
Arguments parg T : clear implicits. Arguments raster T : clear implicits. Arguments loaded T : clear implicits.
Arguments pval T txt : clear implicits. Arguments packed T txt ttxt : clear implicits.
Arguments h5file T txt ttxt : clear implicits.
Arguments LS {T}. Arguments LN {T}. Arguments mkArr {T}. Arguments YNum {T}. Arguments YInt {T}. Arguments YBool {T}.
Arguments YStr {T}. Arguments YSeq {T}. Arguments YMap {T}. Arguments ANone {T}. Arguments AVal {T}. Arguments AArr {T}.
Arguments UNone {T}. Arguments UVal {T}. Arguments UArr {T}. Arguments UDict {T}.
Arguments PNone {T}. Arguments PVec {T}. Arguments PArr {T}. Arguments PDict {T}.
Arguments RGrey {T}. Arguments RColour {T}. Arguments LBadImage {T}. Arguments LLoadError {T}. Arguments LOk {T}.
Arguments mkImage {T}. Arguments PText {T txt}. Arguments PData {T txt}.

(** * comparison helpers for the generated correspondence files (Q instance; tol = 0 means exact).
    Dictionaries are compared as Python compares them: same keys, same values, any order. *)
From HV Require Import Common.Cmp.
From Coq Require Import QArith.
Definition label_sim (a b : label Q) : bool :=
  match a, b with LS x, LS y => String.eqb x y | LN x, LN y => Qeq_bool x y | _, _ => false end.
Definition dims_sim (a b : dimspec Q) : bool :=
  list_eqb (fun x y => String.eqb (fst x) (fst y) && list_eqb label_sim (snd x) (snd y)) a b.
Definition larr_sim (tol : Q) (a b : larr Q) : bool :=
  dims_sim (a_dims a) (a_dims b) && list_eqb (qclose tol) (a_data a) (a_data b).
Fixpoint yv_sim (tol : Q) (a b : yv Q) : bool :=
  match a, b with
  | YNum x, YNum y => qclose tol x y
  | YInt x, YInt y => Z.eqb x y
  | YBool x, YBool y => Bool.eqb x y
  | YStr x, YStr y => String.eqb x y
  | YSeq l, YSeq m =>
      (fix go (l m : list (yv Q)) : bool :=
         match l, m with [], [] => true | x :: l', y :: m' => yv_sim tol x y && go l' m' | _, _ => false end) l m
  | YMap l, YMap m =>
      (fix go (l m : list (string * yv Q)) : bool :=
         match l, m with
         | [], [] => true
         | (k, x) :: l', (k', y) :: m' => String.eqb k k' && yv_sim tol x y && go l' m'
         | _, _ => false end) l m
  | _, _ => false
  end.
Definition aval_sim (tol : Q) (a b : aval Q) : bool :=
  match a, b with
  | ANone, ANone => true | AVal x, AVal y => yv_sim tol x y | AArr x, AArr y => larr_sim tol x y | _, _ => false end.
Definition attrs_sim (tol : Q) (a b : attrs Q) : bool :=
  Nat.eqb (List.length a) (List.length b) &&
  forallb (fun kv => match lookup (fst kv) b with Some v => aval_sim tol (snd kv) v | None => false end) a.
Definition oattrs_sim (tol : Q) (a b : option (attrs Q)) : bool :=
  match a, b with Some x, Some y => attrs_sim tol x y | None, None => true | _, _ => false end.
Definition table_sim (a b : table Q) : bool :=
  Nat.eqb (List.length a) (List.length b) &&
  forallb (fun e => match lookup (fst e) b with Some d => option_eqb dims_sim (snd e) d | None => false end) a.
Definition idy (y : yv Q) := y.
Definition idt (t : table Q) := t.
(** pack -> unpack with the ideal text layer, and the table / stored data of pack alone *)
Definition model_roundtrip (a : attrs Q) : option (attrs Q) :=
  unpack_attrs (yv Q) (table Q) Some idt (pack_attrs (yv Q) (table Q) idy idt None None a).
Definition model_table (a : attrs Q) : table Q := p_table (yv Q) (table Q) (pack_attrs (yv Q) (table Q) idy idt None None a).
Definition model_data (a : attrs Q) : list (string * list Q) :=
  somes (map (fun kv => match snd kv with PData d => Some (fst kv, d) | PText _ => None end)
             (p_items (yv Q) (table Q) (pack_attrs (yv Q) (table Q) idy idt None None a))).
Definition data_sim (a b : list (string * list Q)) : bool :=
  Nat.eqb (List.length a) (List.length b) &&
  forallb (fun e => match lookup (fst e) b with Some d => qlist_eqb (snd e) d | None => false end) a.
Definition loaded_sim (a b : loaded Q) : bool :=
  match a, b with
  | LBadImage, LBadImage => true | LLoadError, LLoadError => true
  | LOk la pa, LOk lb pb => option_eqb (list_eqb label_sim) la lb && list_eqb (list_eqb qlist_eqb) pa pb
  | _, _ => false
  end.
Definition oimage_attrs (o : option (image Q)) : option (attrs Q) := option_map (@i_attrs Q) o.

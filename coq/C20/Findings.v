(** Models of defective variants with computed witnesses (historical record of what the
    code did before a "fix:" commit, or of a known finding). *)
From Coq Require Import ZArith QArith List Bool.
From HV Require Import Common.Generic C20.Model.
Import ListNotations.
Open Scope Q_scope.

(** CsgScatterer inherited Scatterer.translated: a copy whose [.center] is moved while
    [s1], [s2] (which alone decide in_domain) stay put.  The containment region does not move. *)
Theorem csg_translate_center_only_refuted :
  exists (s : shape Q) (t p : vec Q),
    contains QO (translate_center_only QO s t) p <> contains QO s (vsub QO p t).
Proof.
  exists (Union (Sph (0,0,0) [1]) (Sph (1,0,0) [1])), (5,0,0), (5,0,0).
  vm_compute. discriminate.
Qed.

From Coq Require Import ZArith List Bool Reals QArith Qreals Lra Lia Psatz.
From HV Require Import Common.Generic C20.Model.
Import ListNotations.

(** * the overwrite loop implements "first indicator wins", for every indicator list *)
Lemma enumerate_from_app {A} (l1 l2 : list A) i :
  enumerate_from i (l1 ++ l2) = enumerate_from i l1 ++ enumerate_from (i + Z.of_nat (length l1)) l2.
Proof. revert i; induction l1 as [|x t IH]; intros i; simpl.
  - f_equal. lia.
  - rewrite IH. do 3 f_equal. lia. Qed.

Lemma overwrite_loop_gen (inds : list bool) i acc :
  fold_left (fun (dom : Z) (ib : Z * bool) => if snd ib then (fst ib + 1)%Z else dom)
            (rev (enumerate_from i inds)) acc
  = match first_true i inds with 0%Z => acc | d => d end \/ False
  -> True.
Proof. trivial. Qed.

Lemma first_true_pos i l : (0 <= i)%Z -> (first_true i l = 0 \/ i < first_true i l)%Z.
Proof. revert i; induction l as [|b t IH]; intros i Hi; simpl; [left; reflexivity|].
  destruct b; [right; lia|]. destruct (IH (i+1)%Z ltac:(lia)); [left; assumption|right; lia]. Qed.

Lemma loop_step (inds : list bool) : forall i acc, (0 <= i)%Z ->
  fold_left (fun (dom : Z) (ib : Z * bool) => if snd ib then (fst ib + 1)%Z else dom)
            (rev (enumerate_from i inds)) acc
  = (if Z.eqb (first_true i inds) 0 then acc else first_true i inds).
Proof. induction inds as [|b t IH]; intros i acc Hi; simpl; [reflexivity|].
  rewrite fold_left_app. simpl. rewrite IH by lia. destruct b.
  - destruct (Z.eqb_spec (i + 1) 0); [lia|reflexivity].
  - reflexivity. Qed.

Lemma overwrite_loop_first_true (inds : list bool) : overwrite_loop inds = first_true 0 inds.
Proof. unfold overwrite_loop. rewrite loop_step by lia.
  destruct (Z.eqb_spec (first_true 0 inds) 0) as [E|E]; [symmetry; exact E|reflexivity]. Qed.

(** characterisation of first_true *)
Lemma first_true_zero i l : (0 <= i)%Z -> (first_true i l = 0%Z <-> forall b, In b l -> b = false).
Proof. revert i; induction l as [|b t IH]; intros i Hi; simpl.
  - split; [intros _ b []|reflexivity].
  - destruct b.
    + split; [lia|]. intros H. specialize (H true (or_introl eq_refl)). discriminate.
    + rewrite IH by lia. split; intros H b Hb; [destruct Hb as [<-|Hb]; [reflexivity|apply H, Hb]|apply H; right; exact Hb]. Qed.

Lemma first_true_nth i l k : (0 <= i)%Z ->
  (first_true i l = i + Z.of_nat k + 1)%Z <->
  (nth k l false = true /\ forall j, (j < k)%nat -> nth j l false = false).
Proof. revert i k; induction l as [|b t IH]; intros i k Hi; simpl.
  - split; [lia|]. intros [H _]. destruct k; discriminate.
  - destruct b.
    + destruct k as [|k].
      * split; [intros _; split; [reflexivity|intros j Hj; lia]|intros _; lia].
      * split; [lia|]. intros [_ H]. specialize (H 0%nat ltac:(lia)). discriminate.
    + destruct k as [|k].
      * split; [|intros [H _]; discriminate]. intros H.
        destruct (first_true_pos (i+1) t ltac:(lia)); lia.
      * replace (i + Z.of_nat (S k) + 1)%Z with ((i + 1) + Z.of_nat k + 1)%Z by lia.
        rewrite IH by lia. split; intros [H1 H2]; (split; [exact H1|]).
        -- intros [|j] Hj; [reflexivity|apply H2; lia].
        -- intros j Hj. apply (H2 (S j)). lia. Qed.

(** * index_at: background outside, n_i in domain i+1 *)
Lemma index_at_gen {N} (ns : list N) : forall i bg dom, (0 <= i)%Z ->
  fold_left (fun (acc : N) (inn : Z * N) => if Z.eqb dom (fst inn + 1) then snd inn else acc)
            (enumerate_from i ns) bg
  = if ((i <? dom) && (dom <=? i + Z.of_nat (length ns)))%Z
    then nth (Z.to_nat (dom - i - 1)) ns bg else bg.
Proof. induction ns as [|n t IH]; intros i bg dom Hi; simpl.
  - destruct ((i <? dom)%Z) eqn:E1; destruct ((dom <=? i + 0)%Z) eqn:E2; simpl; try reflexivity.
    apply Z.ltb_lt in E1. apply Z.leb_le in E2. lia.
  - rewrite IH by lia. destruct (Z.eqb_spec dom (i + 1)) as [->|Hne].
    + replace ((i + 1 <? i + 1)%Z) with false by (symmetry; apply Z.ltb_ge; lia). simpl.
      replace ((i <? i + 1)%Z) with true by (symmetry; apply Z.ltb_lt; lia).
      replace ((i + 1 <=? i + Z.pos (Pos.of_succ_nat (length t)))%Z) with true by (symmetry; apply Z.leb_le; lia).
      simpl. replace (Z.to_nat (i + 1 - i - 1)) with 0%nat by lia. reflexivity.
    + destruct ((i + 1 <? dom)%Z) eqn:E1.
      * apply Z.ltb_lt in E1. replace ((i <? dom)%Z) with true by (symmetry; apply Z.ltb_lt; lia).
        replace ((dom <=? i + Z.pos (Pos.of_succ_nat (length t)))%Z) with ((dom <=? i + 1 + Z.of_nat (length t))%Z)
          by (f_equal; lia).
        simpl. destruct ((dom <=? i + 1 + Z.of_nat (length t))%Z); [|reflexivity].
        replace (Z.to_nat (dom - i - 1)) with (S (Z.to_nat (dom - (i + 1) - 1))) by lia. reflexivity.
      * apply Z.ltb_ge in E1. simpl.
        replace ((i <? dom)%Z) with false by (symmetry; apply Z.ltb_ge; lia). reflexivity. Qed.

Lemma index_at_outside {N} (ns : list N) bg : index_at ns bg 0 = bg.
Proof. unfold index_at. rewrite index_at_gen by lia. reflexivity. Qed.
Lemma index_at_layer {N} (ns : list N) bg k : (k < length ns)%nat ->
  index_at ns bg (Z.of_nat k + 1) = nth k ns bg.
Proof. intros H. unfold index_at. rewrite index_at_gen by lia.
  replace ((0 <? Z.of_nat k + 1)%Z) with true by (symmetry; apply Z.ltb_lt; lia).
  replace ((Z.of_nat k + 1 <=? 0 + Z.of_nat (length ns))%Z) with true by (symmetry; apply Z.leb_le; lia).
  simpl. f_equal. lia. Qed.

(** * R instance *)
Local Open Scope R_scope.
Notation vecR := (R * R * R)%type.
Definition n2 (q : vecR) : R := let '(a,b,c) := q in a*a + b*b + c*c.
Definition vsubR (a b : vecR) : vecR := let '(a1,a2,a3) := a in let '(b1,b2,b3) := b in (a1-b1,a2-b2,a3-b3).
Definition vaddR (a b : vecR) : vecR := let '(a1,a2,a3) := a in let '(b1,b2,b3) := b in (a1+b1,a2+b2,a3+b3).

Lemma norm2_R q : norm2 RO q = n2 q. Proof. destruct q as [[a b] c]. reflexivity. Qed.
Lemma vsub_R a b : vsub RO a b = vsubR a b. Proof. destruct a as [[? ?] ?], b as [[? ?] ?]. reflexivity. Qed.
Lemma vadd_R a b : vadd RO a b = vaddR a b. Proof. destruct a as [[? ?] ?], b as [[? ?] ?]. reflexivity. Qed.

Lemma contains_pos {T} (O : Ops T) s p : contains O s p = (0 <? domain O s p)%Z. Proof. reflexivity. Qed.

(** sphere / layered sphere *)
Lemma sphere_contains_iff c rs p :
  contains RO (Sph c rs) p = true <-> exists r, In r rs /\ n2 (vsubR p c) < r * r.
Proof. unfold contains, domain, sphere_domain. rewrite overwrite_loop_first_true, vsub_R.
  rewrite Z.ltb_lt. unfold sphere_inds. rewrite norm2_R. split.
  - intros H. destruct (first_true_pos 0 (map (fun r => ltb RO (n2 (vsubR p c)) (sq RO r)) rs) ltac:(lia)) as [E|_]; [lia|].
    assert (~ (forall b, In b (map (fun r => ltb RO (n2 (vsubR p c)) (sq RO r)) rs) -> b = false)) as NA.
    { intro A. pose proof (proj2 (first_true_zero 0 _ ltac:(lia)) A). lia. }
    clear H. induction rs as [|r t IH]; simpl in *; [exfalso; apply NA; intros b []|].
    destruct (Rltb (n2 (vsubR p c)) (sq RO r)) eqn:E.
    + exists r. split; [left; reflexivity|]. apply Rltb_true in E. exact E.
    + destruct IH as [r' [Hin Hr']].
      * intro A. apply NA. intros b [<-|Hb]; [exact E|apply A, Hb].
      * exists r'. split; [right; exact Hin|exact Hr'].
  - intros [r [Hin Hr]].
    destruct (first_true_pos 0 (map (fun r => ltb RO (n2 (vsubR p c)) (sq RO r)) rs) ltac:(lia)) as [E|E]; [|lia].
    exfalso. rewrite first_true_zero in E by lia.
    specialize (E (ltb RO (n2 (vsubR p c)) (sq RO r)) (in_map _ _ _ Hin)).
    simpl in E. apply Rltb_false in E. unfold sq in E; simpl in E. lra. Qed.

(** which layer: domain = k+1 iff inside radius k and outside every earlier-listed radius *)
Lemma layer_correct c rs p k :
  domain RO (Sph c rs) p = (Z.of_nat k + 1)%Z <->
  (nth k (map (fun r => Rltb (n2 (vsubR p c)) (r * r)) rs) false = true /\
   forall j, (j < k)%nat -> nth j (map (fun r => Rltb (n2 (vsubR p c)) (r * r)) rs) false = false).
Proof. unfold domain, sphere_domain. rewrite overwrite_loop_first_true, vsub_R. unfold sphere_inds.
  rewrite norm2_R. replace (Z.of_nat k + 1)%Z with (0 + Z.of_nat k + 1)%Z by lia.
  rewrite first_true_nth by lia. reflexivity. Qed.

(** for ascending radii this is the analytic shell r_{k-1} <= |q| < r_k *)
Lemma layer_shell c rs p k : (k < length rs)%nat ->
  (forall i j, (i <= j < length rs)%nat -> 0 <= nth i rs 0 <= nth j rs 0) ->
  (domain RO (Sph c rs) p = (Z.of_nat k + 1)%Z <->
   n2 (vsubR p c) < nth k rs 0 * nth k rs 0 /\
   (k = 0%nat \/ nth (k-1) rs 0 * nth (k-1) rs 0 <= n2 (vsubR p c))).
Proof. intros Hk Hasc. rewrite layer_correct.
  set (f := fun r => Rltb (n2 (vsubR p c)) (r * r)).
  assert (Hn : forall j, (j < length rs)%nat -> nth j (map f rs) false = f (nth j rs 0)).
  { intros j Hj. rewrite (nth_indep _ false (f 0)) by (rewrite map_length; exact Hj). apply map_nth. }
  split.
  - intros [H1 H2]. rewrite Hn in H1 by exact Hk. unfold f in H1. apply Rltb_true in H1. split; [exact H1|].
    destruct k as [|k]; [left; reflexivity|right]. specialize (H2 k ltac:(lia)). rewrite Hn in H2 by lia.
    unfold f in H2. apply Rltb_false in H2. replace (S k - 1)%nat with k by lia. exact H2.
  - intros [H1 H2]. split; [rewrite Hn by exact Hk; unfold f; apply Rltb_true; exact H1|].
    intros j Hj. rewrite Hn by lia. unfold f. apply Rltb_false.
    destruct H2 as [->|H2]; [lia|]. destruct (Hasc j (k-1)%nat ltac:(lia)) as [A B].
    apply Rle_trans with (nth (k-1) rs 0 * nth (k-1) rs 0); [|exact H2]. nra. Qed.

(** LayeredSphere: radii built from non-negative thicknesses are non-negative and ascending,
    i.e. they satisfy the hypothesis of [layer_shell], and the last one is the total thickness *)
Fixpoint sumR (l : list R) : R := match l with [] => 0 | x :: t => x + sumR t end.
Lemma cumsum_from_nth acc ts k : (k < length ts)%nat ->
  nth k (cumsum_from RO acc ts) 0 = acc + sumR (firstn (S k) ts).
Proof. revert acc k; induction ts as [|t r IH]; intros acc k Hk; simpl in Hk; [lia|].
  destruct k as [|k]; cbn [cumsum_from nth firstn sumR add RO]; [lra|].
  rewrite IH by lia. cbn [firstn sumR]. lra. Qed.
Lemma layered_radii_nth ts k : (k < length ts)%nat -> nth k (layered_radii RO ts) 0 = sumR (firstn (S k) ts).
Proof. destruct ts as [|t0 r]; simpl; [lia|]. intros Hk. destruct k as [|k]; [simpl; lra|].
  cbn [nth]. rewrite cumsum_from_nth by lia. cbn [firstn sumR]. lra. Qed.
Lemma layered_radii_length ts : length (layered_radii RO ts) = length ts.
Proof. destruct ts as [|t0 r]; [reflexivity|]. simpl. f_equal. generalize t0. induction r as [|x r IH]; intros a; simpl; [reflexivity|]. f_equal. apply IH. Qed.
Lemma sumR_firstn_mono ts i j : Forall (fun t => 0 <= t) ts -> (i <= j)%nat -> 0 <= sumR (firstn i ts) <= sumR (firstn j ts).
Proof. intros H. revert i j. induction H as [|t r Ht Hr IH]; intros i j Hij.
  - rewrite !firstn_nil. simpl. lra.
  - destruct i as [|i]; destruct j as [|j]; try lia; cbn [firstn sumR].
    + lra. + destruct (IH 0%nat j ltac:(lia)) as [_ B]. simpl in B. lra.
    + destruct (IH i j ltac:(lia)). lra. Qed.
Lemma layered_radii_ascending ts : Forall (fun t => 0 <= t) ts ->
  forall i j, (i <= j < length (layered_radii RO ts))%nat ->
    0 <= nth i (layered_radii RO ts) 0 <= nth j (layered_radii RO ts) 0.
Proof. intros H i j Hij. rewrite layered_radii_length in Hij. rewrite !layered_radii_nth by lia.
  apply sumR_firstn_mono; [exact H|lia]. Qed.

(** ellipsoid *)
Lemma ell_contains_iff c r p :
  contains RO (Ell c r) p = true <->
  let '(q1,q2,q3) := vsubR p c in let '(r1,r2,r3) := r in
  (q1 / r1) * (q1 / r1) + (q2 / r2) * (q2 / r2) + (q3 / r3) * (q3 / r3) < 1.
Proof. unfold contains, domain. rewrite overwrite_loop_first_true, vsub_R. simpl first_true.
  destruct (vsubR p c) as [[q1 q2] q3]. destruct r as [[r1 r2] r3]. unfold ell_ind.
  cbn [ltb RO add mul inv one sq]. destruct (Rltb _ 1) eqn:E.
  - apply Rltb_true in E. split; [intros _; exact E|intros _; reflexivity].
  - apply Rltb_false in E. split; [discriminate|]. intros H. unfold Rdiv in H. lra. Qed.

(** CSG nodes are the boolean combinations *)
Lemma contains_union {T} (O : Ops T) a b p : contains O (Union a b) p = contains O a p || contains O b p.
Proof. unfold contains; simpl. destruct ((0 <? domain O a p)%Z || (0 <? domain O b p)%Z); reflexivity. Qed.
Lemma contains_diff {T} (O : Ops T) a b p : contains O (Diff a b) p = contains O a p && negb (contains O b p).
Proof. unfold contains; simpl. destruct ((0 <? domain O a p)%Z && negb (0 <? domain O b p)%Z); reflexivity. Qed.
Lemma contains_inter {T} (O : Ops T) a b p : contains O (Inter a b) p = contains O a p && contains O b p.
Proof. unfold contains; simpl. destruct ((0 <? domain O a p)%Z && (0 <? domain O b p)%Z); reflexivity. Qed.

(** translation moves the containment region: every tree, every vector, every point *)
Lemma vsub_translate p c t : vsubR p (vaddR c t) = vsubR (vsubR p t) c.
Proof. destruct p as [[? ?] ?], c as [[? ?] ?], t as [[? ?] ?]. simpl. f_equal; [f_equal|]; ring. Qed.

Lemma translate_domain s t p : domain RO (translate RO s t) p = domain RO s (vsubR p t).
Proof. induction s as [c rs|c r|a IHa b IHb|a IHa b IHb|a IHa b IHb]; simpl.
  - unfold sphere_domain. rewrite !vsub_R, vadd_R, vsub_translate. reflexivity.
  - rewrite !vsub_R, vadd_R, vsub_translate. reflexivity.
  - rewrite IHa, IHb. reflexivity.
  - rewrite IHa, IHb. reflexivity.
  - rewrite IHa, IHb. reflexivity. Qed.
Lemma translate_contains s t p : contains RO (translate RO s t) p = contains RO s (vsubR p t).
Proof. unfold contains. rewrite translate_domain. reflexivity. Qed.

(** * bounds contain every interior point *)
Definition radii_ok (s : shape R) : Prop :=
  (fix ok s := match s with
     | Sph _ rs => Forall (fun r => 0 <= r) rs
     | Ell _ (r1,r2,r3) => 0 < r1 /\ 0 < r2 /\ 0 < r3
     | Union a b | Diff a b | Inter a b => ok a /\ ok b end) s.

Lemma tmax_R a b : tmax RO a b = Rmax a b.
Proof. unfold tmax; simpl. unfold Rltb, Rmax. destruct (Rlt_dec a b), (Rle_dec a b); try reflexivity; lra. Qed.
Lemma tmin_R a b : tmin RO a b = Rmin a b.
Proof. unfold tmin; simpl. unfold Rltb, Rmin. destruct (Rlt_dec b a), (Rle_dec a b); try reflexivity; lra. Qed.

Lemma fold_tmax_ge l : forall a, a <= fold_left (tmax RO) l a /\ forall x, In x l -> x <= fold_left (tmax RO) l a.
Proof. induction l as [|y t IH]; intros a; simpl; [split; [lra|intros x []]|].
  destruct (IH (tmax RO a y)) as [H1 H2]. rewrite tmax_R in *. split.
  - eapply Rle_trans; [apply Rmax_l|exact H1].
  - intros x [<-|Hx]; [eapply Rle_trans; [apply Rmax_r|exact H1]|apply H2, Hx]. Qed.
Lemma maxl_ge l x : In x l -> x <= maxl RO l.
Proof. destruct l as [|a t]; [intros []|]. simpl. destruct (fold_tmax_ge t a) as [H1 H2].
  intros [<-|Hx]; [exact H1|apply H2, Hx]. Qed.

Lemma in_box_iff (b : box R) p :
  in_box RO b p = true <->
  let '((x0,x1),(y0,y1),(z0,z1)) := b in let '(p1,p2,p3) := p in
  x0 <= p1 <= x1 /\ y0 <= p2 <= y1 /\ z0 <= p3 <= z1.
Proof. destruct b as [[[x0 x1] [y0 y1]] [z0 z1]]. destruct p as [[p1 p2] p3]. unfold in_box. cbn [leb RO].
  rewrite !andb_true_iff, !Rleb_true. tauto. Qed.

Lemma sq_lt_abs a r : 0 <= r -> a * a < r * r -> - r < a < r.
Proof. intros. split; nra. Qed.

Lemma hull_in_l a b p : in_box RO a p = true -> in_box RO (hull RO a b) p = true.
Proof. rewrite !in_box_iff. destruct a as [[[ax0 ax1] [ay0 ay1]] [az0 az1]], b as [[[bx0 bx1] [by0 by1]] [bz0 bz1]].
  destruct p as [[p1 p2] p3]. unfold hull. rewrite !tmax_R, !tmin_R. intros (?&?&?).
  pose proof (Rmin_l ax0 bx0). pose proof (Rmax_l ax1 bx1). pose proof (Rmin_l ay0 by0).
  pose proof (Rmax_l ay1 by1). pose proof (Rmin_l az0 bz0). pose proof (Rmax_l az1 bz1). lra. Qed.
Lemma hull_in_r a b p : in_box RO b p = true -> in_box RO (hull RO a b) p = true.
Proof. rewrite !in_box_iff. destruct a as [[[ax0 ax1] [ay0 ay1]] [az0 az1]], b as [[[bx0 bx1] [by0 by1]] [bz0 bz1]].
  destruct p as [[p1 p2] p3]. unfold hull. rewrite !tmax_R, !tmin_R. intros (?&?&?).
  pose proof (Rmin_r ax0 bx0). pose proof (Rmax_r ax1 bx1). pose proof (Rmin_r ay0 by0).
  pose proof (Rmax_r ay1 by1). pose proof (Rmin_r az0 bz0). pose proof (Rmax_r az1 bz1). lra. Qed.

Lemma bounds_contain_interior s p : radii_ok s -> contains RO s p = true -> in_box RO (bounds RO s) p = true.
Proof. revert p. induction s as [c rs|c r|a IHa b IHb|a IHa b IHb|a IHa b IHb]; intros p Hok Hc.
  - apply sphere_contains_iff in Hc. destruct Hc as [r [Hin Hr]]. simpl in Hok.
    assert (Hr0 : 0 <= r) by (rewrite Forall_forall in Hok; apply Hok, Hin).
    pose proof (maxl_ge rs r Hin) as Hm. destruct c as [[c1 c2] c3], p as [[p1 p2] p3].
    simpl bounds. apply in_box_iff. cbn [add opp RO]. simpl in Hr.
    pose proof (Rle_0_sqr (p1-c1)) as S1. pose proof (Rle_0_sqr (p2-c2)) as S2.
    pose proof (Rle_0_sqr (p3-c3)) as S3. unfold Rsqr in S1, S2, S3.
    assert (A1 : (p1-c1)*(p1-c1) < r*r) by lra. assert (A2 : (p2-c2)*(p2-c2) < r*r) by lra.
    assert (A3 : (p3-c3)*(p3-c3) < r*r) by lra.
    apply sq_lt_abs in A1, A2, A3; try lra.
  - apply ell_contains_iff in Hc. destruct c as [[c1 c2] c3], p as [[p1 p2] p3], r as [[r1 r2] r3].
    simpl in Hok, Hc. destruct Hok as (H1&H2&H3). simpl bounds. apply in_box_iff. cbn [add opp RO].
    set (u1 := (p1-c1)/r1) in *. set (u2 := (p2-c2)/r2) in *. set (u3 := (p3-c3)/r3) in *.
    assert (E1 : p1 - c1 = u1 * r1) by (unfold u1; field; lra).
    assert (E2 : p2 - c2 = u2 * r2) by (unfold u2; field; lra).
    assert (E3 : p3 - c3 = u3 * r3) by (unfold u3; field; lra).
    assert (B1 : -1 < u1 < 1) by (split; nra). assert (B2 : -1 < u2 < 1) by (split; nra).
    assert (B3 : -1 < u3 < 1) by (split; nra). repeat split; nra.
  - rewrite contains_union in Hc. destruct Hok as [Ha Hb]. apply orb_true_iff in Hc. simpl bounds.
    destruct Hc as [Hc|Hc]; [apply hull_in_l, IHa|apply hull_in_r, IHb]; assumption.
  - rewrite contains_diff in Hc. destruct Hok as [Ha Hb]. apply andb_true_iff in Hc. simpl bounds.
    apply IHa; tauto.
  - rewrite contains_inter in Hc. destruct Hok as [Ha Hb]. apply andb_true_iff in Hc. simpl bounds.
    apply hull_in_l, IHa; tauto. Qed.

(** * overlaps *)
Lemma in_pairs_from {A} (x : A) l : forall i j a b ia jb,
  In ((ia, a), (jb, b)) (pairs_from i j x l) <->
  (ia = i /\ a = x /\ exists k, (k < length l)%nat /\ jb = (j + Z.of_nat k)%Z /\ nth_error l k = Some b).
Proof. induction l as [|y t IH]; intros i j a b ia jb; simpl.
  - split; [intros []|]. intros (_&_&k&Hk&_). lia.
  - rewrite IH. split.
    + intros [E|(E1&E2&k&Hk&Hj&Hn)].
      * inversion E; subst. repeat split; try reflexivity. exists 0%nat. simpl. repeat split; first [lia|reflexivity].
      * repeat split; try assumption. exists (S k). simpl. repeat split; first [lia|exact Hn].
    + intros (E1&E2&k&Hk&Hj&Hn). destruct k as [|k].
      * left. simpl in Hn. inversion Hn; subst. f_equal. f_equal. lia.
      * right. repeat split; try assumption. exists k. repeat split; first [lia|exact Hn]. Qed.

Lemma in_pairs_aux {A} (l : list A) : forall i a b ia jb,
  In ((ia, a), (jb, b)) (pairs_aux i l) <->
  exists k m, (k < m < length l)%nat /\ ia = (i + Z.of_nat k)%Z /\ jb = (i + Z.of_nat m)%Z /\
              nth_error l k = Some a /\ nth_error l m = Some b.
Proof. induction l as [|x t IH]; intros i a b ia jb; simpl.
  - split; [intros []|]. intros (k&m&H&_). lia.
  - rewrite in_app_iff, in_pairs_from, IH. split.
    + intros [(E1&E2&k&Hk&Hj&Hn)|(k&m&Hkm&E1&E2&Hk&Hm)].
      * exists 0%nat, (S k). subst. repeat split; try lia. exact Hn.
      * exists (S k), (S m). repeat split; try lia; assumption.
    + intros (k&m&Hkm&E1&E2&Hk&Hm). destruct k as [|k].
      * left. simpl in Hk. inversion Hk; subst. repeat split; try lia. destruct m as [|m]; [lia|].
        exists m. repeat split; try lia. exact Hm.
      * right. destruct m as [|m]; [lia|]. exists k, m. repeat split; try lia; assumption. Qed.

(** reported pairs are exactly the pairs i<j with d^2 < (r_i+r_j)^2: sound and complete *)
Lemma overlaps_exact {T} (O : Ops T) (ms : list (member T)) i j :
  In (i, j) (overlaps_sq O ms) <->
  exists k m a b, (k < m < length ms)%nat /\ i = Z.of_nat k /\ j = Z.of_nat m /\
     nth_error ms k = Some a /\ nth_error ms m = Some b /\
     ltb O (d2 O a b) (sq O (add O (snd a) (snd b))) = true.
Proof. unfold overlaps_sq, all_pairs. rewrite in_map_iff. split.
  - intros ([[ia a] [jb b]] & E & Hin). simpl in E. inversion E; subst.
    apply filter_In in Hin. destruct Hin as [Hin Hf]. apply in_pairs_aux in Hin.
    destruct Hin as (k&m&Hkm&E1&E2&Hk&Hm). exists k, m, a, b. simpl in Hf.
    repeat split; try lia; assumption.
  - intros (k&m&a&b&Hkm&E1&E2&Hk&Hm&Hf). exists ((i, a), (j, b)). split; [reflexivity|].
    apply filter_In. split; [|exact Hf]. apply in_pairs_aux. exists k, m. repeat split; try lia; assumption. Qed.

(** the code's sqrt form and the sqrt-free form agree for non-negative radii *)
Definition distR (a b : vecR) : R := sqrt (n2 (vsubR a b)).
Lemma n2_nonneg q : 0 <= n2 q. Proof. destruct q as [[a b] c]. simpl. nra. Qed.
Lemma sqrt_lt_sq d s : 0 <= d -> 0 <= s -> (sqrt d < s <-> d < s * s).
Proof. intros Hd Hs. split; intros H.
  - rewrite <- (sqrt_def d Hd). pose proof (sqrt_pos d). nra.
  - apply Rsqr_incrst_0; [|apply sqrt_pos|exact Hs]. unfold Rsqr. rewrite sqrt_def by exact Hd. exact H. Qed.

Lemma d2_R (a b : member R) : d2 RO a b = n2 (vsubR (fst a) (fst b)).
Proof. unfold d2. rewrite vsub_R, norm2_R. reflexivity. Qed.

Lemma overlaps_dist_eq_sq (ms : list (member R)) :
  Forall (fun m => 0 <= snd m) ms -> overlaps_dist RO distR ms = overlaps_sq RO ms.
Proof. intros Hr. unfold overlaps_dist, overlaps_sq. f_equal. apply filter_ext_in.
  intros [[ia a] [jb b]] Hin. apply in_pairs_aux in Hin. destruct Hin as (k&m&_&_&_&Hk&Hm).
  apply nth_error_In in Hk, Hm. rewrite Forall_forall in Hr. pose proof (Hr _ Hk). pose proof (Hr _ Hm).
  cbv beta. cbn [fst snd]. rewrite d2_R. unfold distR, sq. cbn [add mul ltb RO].
  set (D := n2 (vsubR (fst a) (fst b))). assert (HD : 0 <= D) by apply n2_nonneg.
  destruct (Rltb D ((snd a + snd b) * (snd a + snd b))) eqn:E.
  - apply Rltb_true. apply Rltb_true in E. apply sqrt_lt_sq; [exact HD|lra|exact E].
  - apply Rltb_false. apply Rltb_false in E. destruct (Rle_dec (snd a + snd b) (sqrt D)) as [L|L]; [exact L|].
    exfalso. apply Rnot_le_lt in L. apply sqrt_lt_sq in L; [lra|exact HD|lra]. Qed.

(** largest_overlap = max(0, max over pairs of r_i + r_j - d_ij) *)
Lemma largest_overlap_spec dist (ms : list (member R)) :
  let vals := map (fun pr : (Z * member R) * (Z * member R) =>
                     snd (snd (fst pr)) + snd (snd (snd pr)) - dist (fst (snd (fst pr))) (fst (snd (snd pr))))
                  (all_pairs ms) in
  0 <= largest_overlap RO dist ms /\ (forall v, In v vals -> v <= largest_overlap RO dist ms) /\
  (largest_overlap RO dist ms = 0 \/ In (largest_overlap RO dist ms) vals).
Proof. intros vals. unfold largest_overlap.
  assert (G : forall l a, fold_left (fun acc (pr : (Z * member R) * (Z * member R)) => tmax RO acc
              (sub RO (add RO (snd (snd (fst pr))) (snd (snd (snd pr)))) (dist (fst (snd (fst pr))) (fst (snd (snd pr))))))
              l a = fold_left (tmax RO) (map (fun pr : (Z * member R) * (Z * member R) =>
                     snd (snd (fst pr)) + snd (snd (snd pr)) - dist (fst (snd (fst pr))) (fst (snd (snd pr)))) l) a).
  { induction l as [|x t IH]; intros a; simpl; [reflexivity|apply IH]. }
  rewrite G. fold vals. generalize vals. clear. intros l. destruct (fold_tmax_ge l 0) as [H1 H2].
  split; [exact H1|]. split; [exact H2|].
  assert (K : forall l a, fold_left (tmax RO) l a = a \/ In (fold_left (tmax RO) l a) l).
  { clear. induction l as [|x t IH]; intros a; simpl; [left; reflexivity|].
    destruct (IH (tmax RO a x)) as [E|E]; [|right; right; exact E]. rewrite E, tmax_R.
    unfold Rmax. destruct (Rle_dec a x); [right; left; reflexivity|left; reflexivity]. }
  apply K. Qed.

(** * construction-time decisions *)
Lemma warns_iff {T} (O : Ops T) ms w : warns O ms w = true <-> (w = true /\ overlaps_sq O ms <> []).
Proof. unfold warns. destruct (overlaps_sq O ms) as [|x l].
  - split; [discriminate|]. intros [_ H]. contradiction.
  - split; [intros H; split; [exact H|discriminate]|intros [H _]; exact H]. Qed.

Lemma sphere_ctor_rejects (rs : list R) cl :
  sphere_ctor RO rs cl = RejectInvalid <->
  ((exists r, In r rs /\ r < 0) \/ (exists n, cl = Some n /\ n <> 3%Z)).
Proof. unfold sphere_ctor. destruct (existsb _ rs) eqn:E.
  - split; [intros _; left|reflexivity]. apply existsb_exists in E. destruct E as [r [Hin Hr]].
    exists r. split; [exact Hin|]. apply Rltb_true in Hr. exact Hr.
  - assert (NE : ~ exists r, In r rs /\ r < 0).
    { intros [r [Hin Hr]]. assert (existsb (fun r => ltb RO r (zero RO)) rs = true).
      { apply existsb_exists. exists r. split; [exact Hin|apply Rltb_true; exact Hr]. } congruence. }
    destruct cl as [n|]; [destruct (Z.eqb_spec n 3)|]; split; try discriminate; try tauto.
    + intros [H|[n' [Hn' Hne]]]; [contradiction|]. inversion Hn'; subst. contradiction.
    + intros _. right. exists n. split; [reflexivity|assumption].
    + intros [H|[n' [Hn' _]]]; [contradiction|discriminate]. Qed.

Lemma spheres_ctor_rejects bs : spheres_ctor bs = RejectInvalid <-> In false bs.
Proof. unfold spheres_ctor. destruct (forallb (fun b => b) bs) eqn:E.
  - split; [discriminate|]. intros H. rewrite forallb_forall in E. specialize (E _ H). discriminate.
  - split; [|reflexivity]. intros _. induction bs as [|b t IH]; simpl in *; [discriminate|].
    destruct b; [right; apply IH; exact E|left; reflexivity]. Qed.

(** * the Q instance that is executed computes the same booleans as the R instance *)
Definition vQ2R (v : Q * Q * Q) : vecR := let '(a,b,c) := v in (Q2R a, Q2R b, Q2R c).
Fixpoint shapeQ2R (s : shape Q) : shape R :=
  match s with
  | Sph c rs => Sph (vQ2R c) (map Q2R rs)
  | Ell c r => Ell (vQ2R c) (vQ2R r)
  | Union a b => Union (shapeQ2R a) (shapeQ2R b)
  | Diff a b => Diff (shapeQ2R a) (shapeQ2R b)
  | Inter a b => Inter (shapeQ2R a) (shapeQ2R b)
  end.
Definition ell_nonzero (s : shape Q) : Prop :=
  (fix ok s := match s with
     | Sph _ _ => True
     | Ell _ (r1,r2,r3) => ~ r1 == 0 /\ ~ r2 == 0 /\ ~ r3 == 0
     | Union a b | Diff a b | Inter a b => ok a /\ ok b end)%Q s.

Lemma domain_Q_R s p : ell_nonzero s -> domain QO s p = domain RO (shapeQ2R s) (vQ2R p).
Proof. induction s as [c rs|c r|a IHa b IHb|a IHa b IHb|a IHa b IHb]; intros Hok; simpl.
  - unfold sphere_domain. f_equal. unfold sphere_inds. rewrite map_map. apply map_ext. intros r.
    destruct p as [[p1 p2] p3], c as [[c1 c2] c3]. unfold norm2, vsub, sq, vQ2R. q2r.
  - destruct p as [[p1 p2] p3], c as [[c1 c2] c3], r as [[r1 r2] r3]. destruct Hok as (H1&H2&H3).
    unfold overwrite_loop. simpl. unfold ell_ind, sq, vQ2R, vsub.
    cbn [zero one add mul sub opp inv ltb leb eqb ofZ RO QO].
    rewrite Qltb_Rltb. autorewrite with q2r. rewrite !Q2R_inv by assumption. reflexivity.
  - destruct Hok as [Ha Hb]. rewrite IHa, IHb by assumption. reflexivity.
  - destruct Hok as [Ha Hb]. rewrite IHa, IHb by assumption. reflexivity.
  - destruct Hok as [Ha Hb]. rewrite IHa, IHb by assumption. reflexivity. Qed.

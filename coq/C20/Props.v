(** C20 property theorems: statements only; proofs are in Lemmas.v.
    R instance = object of the theorems; the Q instance that is executed against the
    implementation computes the same values (domain_agrees_on_Q). *)
From Coq Require Import ZArith List Bool Reals QArith Lra.
From HV Require Import Common.Generic C20.Model C20.Lemmas C20.Findings.
Import ListNotations.
Local Open Scope R_scope.

(* in_domain's reversed overwrite loop = "first indicator that holds wins", any number of layers *)
Theorem in_domain_is_first_indicator : forall inds, overwrite_loop inds = first_true 0 inds.
Proof. exact overwrite_loop_first_true. Qed.
Print Assumptions in_domain_is_first_indicator.

Theorem sphere_contains_iff_analytic : forall c rs p,
  contains RO (Sph c rs) p = true <-> exists r, In r rs /\ n2 (vsubR p c) < r * r.
Proof. exact sphere_contains_iff. Qed.
Print Assumptions sphere_contains_iff_analytic.

Theorem layer_is_analytic_shell : forall c rs p k, (k < length rs)%nat ->
  (forall i j, (i <= j < length rs)%nat -> 0 <= nth i rs 0 <= nth j rs 0) ->
  (domain RO (Sph c rs) p = (Z.of_nat k + 1)%Z <->
   n2 (vsubR p c) < nth k rs 0 * nth k rs 0 /\
   (k = 0%nat \/ nth (k-1) rs 0 * nth (k-1) rs 0 <= n2 (vsubR p c))).
Proof. exact layer_shell. Qed.
Print Assumptions layer_is_analytic_shell.

(* LayeredSphere (thickness description): radii are the prefix sums, hence ascending, hence the shell theorem applies *)
Theorem layered_sphere_radii : forall ts k, (k < length ts)%nat ->
  nth k (layered_radii RO ts) 0 = sumR (firstn (S k) ts).
Proof. exact layered_radii_nth. Qed.
Print Assumptions layered_sphere_radii.
Theorem layered_sphere_radii_ascending : forall ts, Forall (fun t => 0 <= t) ts ->
  forall i j, (i <= j < length (layered_radii RO ts))%nat ->
     0 <= nth i (layered_radii RO ts) 0 <= nth j (layered_radii RO ts) 0.
Proof. exact layered_radii_ascending. Qed.
Print Assumptions layered_sphere_radii_ascending.

Theorem index_at_gives_layer_index : forall (N : Type) (ns : list N) bg,
  index_at ns bg 0 = bg /\ forall k, (k < length ns)%nat -> index_at ns bg (Z.of_nat k + 1) = nth k ns bg.
Proof. intros N ns bg. split; [apply index_at_outside|intros k; apply index_at_layer]. Qed.
Print Assumptions index_at_gives_layer_index.

Theorem ellipsoid_contains_iff_analytic : forall c r p,
  contains RO (Ell c r) p = true <->
  let '(q1,q2,q3) := vsubR p c in let '(r1,r2,r3) := r in
  (q1 / r1) * (q1 / r1) + (q2 / r2) * (q2 / r2) + (q3 / r3) * (q3 / r3) < 1.
Proof. exact ell_contains_iff. Qed.
Print Assumptions ellipsoid_contains_iff_analytic.

Theorem csg_contains_is_set_operation : forall a b p,
  contains RO (Union a b) p = contains RO a p || contains RO b p /\
  contains RO (Diff a b) p = contains RO a p && negb (contains RO b p) /\
  contains RO (Inter a b) p = contains RO a p && contains RO b p.
Proof. intros. split; [apply contains_union|split; [apply contains_diff|apply contains_inter]]. Qed.
Print Assumptions csg_contains_is_set_operation.

Theorem translating_translates_containment : forall s t p,
  contains RO (translate RO s t) p = contains RO s (vsubR p t).
Proof. exact translate_contains. Qed.
Print Assumptions translating_translates_containment.

Theorem bounding_box_contains_interior : forall s p,
  radii_ok s -> contains RO s p = true -> in_box RO (bounds RO s) p = true.
Proof. exact bounds_contain_interior. Qed.
Print Assumptions bounding_box_contains_interior.

Theorem overlaps_sound_and_complete : forall (ms : list (member R)) i j,
  In (i, j) (overlaps_sq RO ms) <->
  exists k m a b, (k < m < length ms)%nat /\ i = Z.of_nat k /\ j = Z.of_nat m /\
     nth_error ms k = Some a /\ nth_error ms m = Some b /\
     Rltb (d2 RO a b) (sq RO (snd a + snd b)) = true.
Proof. intros. apply (overlaps_exact RO). Qed.
Print Assumptions overlaps_sound_and_complete.

Theorem overlaps_sqrt_form_eq_squared_form : forall ms : list (member R),
  Forall (fun m => 0 <= snd m) ms -> overlaps_dist RO distR ms = overlaps_sq RO ms.
Proof. exact overlaps_dist_eq_sq. Qed.
Print Assumptions overlaps_sqrt_form_eq_squared_form.

Theorem largest_overlap_is_clamped_max : forall dist (ms : list (member R)),
  let vals := map (fun pr : (Z * member R) * (Z * member R) =>
                     snd (snd (fst pr)) + snd (snd (snd pr)) - dist (fst (snd (fst pr))) (fst (snd (snd pr))))
                  (all_pairs ms) in
  0 <= largest_overlap RO dist ms /\ (forall v, In v vals -> v <= largest_overlap RO dist ms) /\
  (largest_overlap RO dist ms = 0 \/ In (largest_overlap RO dist ms) vals).
Proof. exact largest_overlap_spec. Qed.
Print Assumptions largest_overlap_is_clamped_max.

Theorem warning_iff_overlap_and_enabled : forall (ms : list (member R)) w,
  warns RO ms w = true <-> (w = true /\ overlaps_sq RO ms <> []).
Proof. intros. apply warns_iff. Qed.
Print Assumptions warning_iff_overlap_and_enabled.

Theorem constructor_rejections : forall rs cl bs,
  (sphere_ctor RO rs cl = RejectInvalid <->
     ((exists r, In r rs /\ r < 0) \/ (exists n, cl = Some n /\ n <> 3%Z))) /\
  (spheres_ctor bs = RejectInvalid <-> In false bs).
Proof. intros. split; [apply sphere_ctor_rejects|apply spheres_ctor_rejects]. Qed.
Print Assumptions constructor_rejections.

Theorem domain_agrees_on_Q : forall s p, ell_nonzero s -> domain QO s p = domain RO (shapeQ2R s) (vQ2R p).
Proof. exact domain_Q_R. Qed.
Print Assumptions domain_agrees_on_Q.

(* non-vacuity: hypotheses are satisfiable by a concrete non-trivial object *)
Example hyps_satisfiable :
  radii_ok (Diff (Sph (0,0,0) [1;2]) (Ell (1,0,0) (1,2,3))) /\
  contains QO (Diff (Sph (0,0,0)%Q [1;2]%Q) (Ell (3,0,0)%Q (1,2,3)%Q)) (1,1,0)%Q = true.
Proof. split; [simpl; repeat split; try lra; repeat constructor; lra|vm_compute; reflexivity]. Qed.

(** C20 - containment, layers, CSG, overlaps.  Executable model (no proofs here).
    Anchors: scatterer.py (in_domain / contains / index_at / bounds / translated),
    sphere.py (indicators, negative radius), ellipsoid.py, csg.py, spherecluster.py. *)
From Coq Require Import ZArith List Bool.
From HV Require Import Common.Generic.
Import ListNotations.

Section Gen.
Context {T : Type} (O : Ops T).
Declare Scope t_scope. Delimit Scope t_scope with t.
Local Notation "x + y" := (add O x y) : t_scope. Local Notation "x * y" := (mul O x y) : t_scope.
Local Notation "x - y" := (sub O x y) : t_scope. Local Notation "- x" := (opp O x) : t_scope.
Local Notation "x / y" := (mul O x (inv O y)) : t_scope.
Local Notation "x <? y" := (ltb O x y) : t_scope. Local Notation "x <=? y" := (leb O x y) : t_scope.
Local Open Scope t_scope.

Definition vec : Type := (T * T * T)%type.
Definition vadd (a b : vec) : vec := let '(a1,a2,a3) := a in let '(b1,b2,b3) := b in (a1+b1, a2+b2, a3+b3).
Definition vsub (a b : vec) : vec := let '(a1,a2,a3) := a in let '(b1,b2,b3) := b in (a1-b1, a2-b2, a3-b3).
Definition sq (x : T) : T := x * x.
Definition norm2 (a : vec) : T := let '(a1,a2,a3) := a in sq a1 + sq a2 + sq a3.

(** Sphere.indicators: one strict test per layer radius, on points - center *)
Definition sphere_inds (rs : list T) (q : vec) : list bool := map (fun r => norm2 q <? sq r) rs.

(** Scatterer.in_domain: "for i, ind in reversed(list(enumerate(indicators))): domains[ind] = i+1"
    -- literally the overwrite loop, run from the last indicator to the first. *)
Fixpoint enumerate_from {A} (i : Z) (l : list A) : list (Z * A) :=
  match l with [] => [] | x :: t => (i, x) :: enumerate_from (i + 1) t end.
Definition overwrite_loop (inds : list bool) : Z :=
  fold_left (fun (dom : Z) (ib : Z * bool) => if snd ib then (fst ib + 1)%Z else dom) (rev (enumerate_from 0 inds)) 0%Z.
(** the specification it is meant to meet: first indicator that holds has priority *)
Fixpoint first_true (i : Z) (inds : list bool) : Z :=
  match inds with [] => 0%Z | b :: t => if b then (i + 1)%Z else first_true (i + 1) t end.

Definition sphere_domain (c : vec) (rs : list T) (p : vec) : Z := overwrite_loop (sphere_inds rs (vsub p c)).

(** index_at: background, overwritten by n_i where domain = i+1 (loop over enumerate(ns)) *)
Definition index_at {N} (ns : list N) (bg : N) (dom : Z) : N :=
  fold_left (fun (acc : N) (inn : Z * N) => if Z.eqb dom (fst inn + 1) then snd inn else acc) (enumerate_from 0 ns) bg.

(** Ellipsoid.indicators: ((point / r)**2).sum(-1) < 1 (no rotation applied, as the code says) *)
Definition ell_ind (r : vec) (q : vec) : bool :=
  let '(r1,r2,r3) := r in let '(q1,q2,q3) := q in sq (q1 / r1) + sq (q2 / r2) + sq (q3 / r3) <? one O.

(** LayeredSphere.r: outer radii from layer thicknesses, r[0] = t[0]; r[i+1] = r[i] + t[i+1] *)
Fixpoint cumsum_from (acc : T) (ts : list T) : list T :=
  match ts with [] => [] | t :: r => (acc + t) :: cumsum_from (acc + t) r end.
Definition layered_radii (ts : list T) : list T :=
  match ts with [] => [] | t0 :: r => t0 :: cumsum_from t0 r end.

(** shapes: primitives and the CSG tree *)
Inductive shape :=
| Sph (c : vec) (rs : list T)      (* Sphere / layered sphere: outer radii of the layers *)
| Ell (c : vec) (r : vec)
| Union (a b : shape) | Diff (a b : shape) | Inter (a b : shape).

Fixpoint domain (s : shape) (p : vec) : Z :=
  match s with
  | Sph c rs => sphere_domain c rs p
  | Ell c r => overwrite_loop [ell_ind r (vsub p c)]
  | Union a b => if (0 <? domain a p)%Z || (0 <? domain b p)%Z then 1%Z else 0%Z
  | Diff a b => if (0 <? domain a p)%Z && negb (0 <? domain b p)%Z then 1%Z else 0%Z
  | Inter a b => if (0 <? domain a p)%Z && (0 <? domain b p)%Z then 1%Z else 0%Z
  end.
Definition contains (s : shape) (p : vec) : bool := (0 <? domain s p)%Z.

(** translated(): the repaired code translates both operands of a CSG node.
    [translate_center_only] is the code as it stood (copy with only .center moved), see Findings.v *)
Fixpoint translate (s : shape) (t : vec) : shape :=
  match s with
  | Sph c rs => Sph (vadd c t) rs
  | Ell c r => Ell (vadd c t) r
  | Union a b => Union (translate a t) (translate b t)
  | Diff a b => Diff (translate a t) (translate b t)
  | Inter a b => Inter (translate a t) (translate b t)
  end.
Definition translate_center_only (s : shape) (t : vec) : shape :=
  match s with
  | Sph c rs => Sph (vadd c t) rs
  | Ell c r => Ell (vadd c t) r
  | other => other      (* .center moved, s1/s2 (which decide in_domain) untouched *)
  end.

(** bounds: list of (lo, hi) per axis *)
Definition tmax (a b : T) : T := if a <? b then b else a.
Definition tmin (a b : T) : T := if b <? a then b else a.
Definition maxl (l : list T) : T := match l with [] => zero O | x :: t => fold_left tmax t x end.
Definition box : Type := ((T * T) * (T * T) * (T * T))%type.
Definition hull (a b : box) : box :=
  let '((ax0,ax1),(ay0,ay1),(az0,az1)) := a in let '((bx0,bx1),(by0,by1),(bz0,bz1)) := b in
  ((tmin ax0 bx0, tmax ax1 bx1), (tmin ay0 by0, tmax ay1 by1), (tmin az0 bz0, tmax az1 bz1)).
Fixpoint bounds (s : shape) : box :=
  match s with
  | Sph (c1,c2,c3) rs => let r := maxl rs in ((c1 + - r, c1 + r), (c2 + - r, c2 + r), (c3 + - r, c3 + r))
  | Ell (c1,c2,c3) (r1,r2,r3) => ((c1 + - r1, c1 + r1), (c2 + - r2, c2 + r2), (c3 + - r3, c3 + r3))
  | Union a b => hull (bounds a) (bounds b)
  | Diff a b => bounds a
  | Inter a b => hull (bounds a) (bounds b)
  end.
Definition in_box (b : box) (p : vec) : bool :=
  let '((x0,x1),(y0,y1),(z0,z1)) := b in let '(p1,p2,p3) := p in
  (x0 <=? p1) && (p1 <=? x1) && (y0 <=? p2) && (p2 <=? y1) && (z0 <=? p3) && (p3 <=? z1).

(** Spheres.overlaps / largest_overlap.  A member is (centre, outer radius = max r).
    The code compares cartesian_distance = sqrt(sum d^2) with r_i + r_j; [dist] is that oracle.
    [overlaps_sq] is the sqrt-free form that is executed on Q. *)
Definition member : Type := (vec * T)%type.
Fixpoint pairs_from {A} (i j : Z) (x : A) (l : list A) : list ((Z * A) * (Z * A)) :=
  match l with [] => [] | y :: t => ((i, x), (j, y)) :: pairs_from i (j + 1) x t end.
Fixpoint pairs_aux {A} (i : Z) (l : list A) : list ((Z * A) * (Z * A)) :=
  match l with [] => [] | x :: t => pairs_from i (i + 1) x t ++ pairs_aux (i + 1) t end.
Definition all_pairs {A} (l : list A) := pairs_aux 0 l.

Definition d2 (a b : member) : T := norm2 (vsub (fst a) (fst b)).
Definition overlaps_sq (ms : list member) : list (Z * Z) :=
  map (fun pr => (fst (fst pr), fst (snd pr)))
      (filter (fun pr => d2 (snd (fst pr)) (snd (snd pr)) <? sq (snd (snd (fst pr)) + snd (snd (snd pr))))
              (all_pairs ms)).
Section Dist.
Variable dist : vec -> vec -> T.
Definition overlaps_dist (ms : list member) : list (Z * Z) :=
  map (fun pr => (fst (fst pr), fst (snd pr)))
      (filter (fun pr => dist (fst (snd (fst pr))) (fst (snd (snd pr))) <? snd (snd (fst pr)) + snd (snd (snd pr)))
              (all_pairs ms)).
Definition largest_overlap (ms : list member) : T :=
  fold_left (fun acc pr => tmax acc (snd (snd (fst pr)) + snd (snd (snd pr))
                                      - dist (fst (snd (fst pr))) (fst (snd (snd pr)))))
            (all_pairs ms) (zero O).
End Dist.
(** executable variant: the oracle's values for the pairs, in all_pairs order *)
Definition largest_overlap_vals (rs : list T) (ds : list T) : T :=
  fold_left (fun acc x => tmax acc x)
            (map (fun prd => snd (fst (fst prd)) + snd (snd (fst prd)) - snd prd)
                 (combine (all_pairs rs) ds)) (zero O).

(** construction-time decisions *)
Inductive verdict := Accept | RejectInvalid.
Definition sphere_ctor (rs : list T) (center_len : option Z) : verdict :=
  if existsb (fun r => r <? zero O) rs then RejectInvalid
  else match center_len with Some n => if Z.eqb n 3 then Accept else RejectInvalid | None => Accept end.
Definition spheres_ctor (members_are_spheres : list bool) : verdict :=
  if forallb (fun b => b) members_are_spheres then Accept else RejectInvalid.
Definition warns (ms : list member) (warn : bool) : bool :=
  match overlaps_sq ms with [] => false | _ => warn end.
End Gen.

Arguments shape T : clear implicits. Arguments member T : clear implicits.
Arguments box T : clear implicits. Arguments vec T : clear implicits.
Arguments Sph {T}. Arguments Ell {T}. Arguments Union {T}. Arguments Diff {T}. Arguments Inter {T}.

From Coq Require Import String ZArith List Bool Lia.
From HV Require Import Common.Generic C07.Model.
Import ListNotations.
Lemma select_commutes_l {A B} (f : A -> B) d sel l : map f (subset d sel l) = subset (f d) sel (map f l).
Proof. unfold subset, znth. rewrite map_map. apply map_ext. intros k. symmetry. apply map_nth. Qed.

(** C07 - proofs.  Everything here is about the definitions of Model.v that the correspondence executes. *)
From Coq Require Import String ZArith List Bool Lia Permutation Reals QArith Qreals Lra.
From HV Require Import Common.Generic C07.Model.
Import ListNotations.
Open Scope Z_scope.

(** ------------------------------------------------------------------ ranges, znth *)
Lemma zrange_from_length i n : length (zrange_from i n) = n.
Proof. revert i; induction n; intros; simpl; [reflexivity|now rewrite IHn]. Qed.

Lemma zrange_from_nth n : forall i k d, (k < n)%nat -> nth k (zrange_from i n) d = i + Z.of_nat k.
Proof. induction n; intros i k d H; [lia|]. destruct k; simpl; [lia|]. rewrite IHn by lia. lia. Qed.

Lemma zrange_from_In n : forall i x, In x (zrange_from i n) <-> i <= x < i + Z.of_nat n.
Proof. induction n; intros i x; simpl; [lia|]. rewrite IHn. lia. Qed.

Lemma zrange_from_NoDup n : forall i, NoDup (zrange_from i n).
Proof. induction n; intros i; simpl; constructor; [|apply IHn]. rewrite zrange_from_In. lia. Qed.

Lemma zlen_nonneg {A} (l : list A) : 0 <= zlen l.
Proof. unfold zlen. lia. Qed.

Lemma zlen_zrange n : zlen (zrange n) = Z.max 0 n.
Proof. unfold zlen, zrange. rewrite zrange_from_length. lia. Qed.

Lemma In_zrange n x : In x (zrange n) <-> 0 <= x < n.
Proof. unfold zrange. rewrite zrange_from_In. lia. Qed.

Lemma znth_zrange d n k : 0 <= k < n -> znth d (zrange n) k = k.
Proof. intros H. unfold znth, zrange. rewrite zrange_from_nth by lia. lia. Qed.

Lemma znth_indep {A} (d d' : A) l k : 0 <= k < zlen l -> znth d l k = znth d' l k.
Proof. unfold znth, zlen. intros H. apply nth_indep. lia. Qed.

Lemma znth_map {A B} (f : A -> B) d d' l k : 0 <= k < zlen l -> znth d (map f l) k = f (znth d' l k).
Proof. unfold znth, zlen. intros H. rewrite (nth_indep _ d (f d')) by (rewrite map_length; lia). apply map_nth. Qed.

Lemma znth_In {A} (d : A) l k : 0 <= k < zlen l -> In (znth d l k) l.
Proof. unfold znth, zlen. intros H. apply nth_In. lia. Qed.

Lemma zlen_map {A B} (f : A -> B) l : zlen (map f l) = zlen l.
Proof. unfold zlen. now rewrite map_length. Qed.

Lemma map_znth_zrange {A} (d : A) l : map (znth d l) (zrange (zlen l)) = l.
Proof.
  unfold zrange, zlen, znth. rewrite Nat2Z.id.
  assert (G : forall (l0 : list A) (m : nat) (pre : list A), length pre = m ->
            map (fun k => nth (Z.to_nat k) (pre ++ l0) d) (zrange_from (Z.of_nat m) (length l0)) = l0).
  { induction l0 as [|a t IH]; intros m pre Hm; simpl; [reflexivity|]. f_equal.
    - rewrite Nat2Z.id, app_nth2 by lia. now rewrite Hm, Nat.sub_diag.
    - replace (Z.of_nat m + 1) with (Z.of_nat (S m)) by lia.
      replace (pre ++ a :: t) with ((pre ++ [a]) ++ t) by (now rewrite <- app_assoc).
      apply IH. rewrite app_length. simpl. lia. }
  apply (G l 0%nat []). reflexivity.
Qed.

(** ------------------------------------------------------------------ flat index <-> (i,j,l) *)
Lemma flat_unflat_l ny nz i j l : 0 <= j < ny -> 0 <= l < nz ->
  unflat ny nz (flat_index ny nz i j l) = (i, j, l).
Proof.
  intros Hj Hl. unfold unflat, flat_index.
  assert (E3 : ((i * ny + j) * nz + l) mod nz = l).
  { symmetry. apply (Z.mod_unique_pos _ _ (i * ny + j)); [lia|ring]. }
  assert (E2 : ((i * ny + j) * nz + l) / nz = i * ny + j).
  { symmetry. apply (Z.div_unique_pos _ _ _ l); [lia|ring]. }
  assert (E2' : (i * ny + j) mod ny = j).
  { symmetry. apply (Z.mod_unique_pos _ _ i); [lia|ring]. }
  assert (E1 : ((i * ny + j) * nz + l) / (ny * nz) = i).
  { symmetry. apply (Z.div_unique_pos _ _ _ (j * nz + l)); [nia|ring]. }
  now rewrite E1, E2, E2', E3.
Qed.

Lemma unflat_flat_l ny nz k : 0 < ny -> 0 < nz ->
  let '(i, j, l) := unflat ny nz k in
  flat_index ny nz i j l = k /\ 0 <= j < ny /\ 0 <= l < nz.
Proof.
  intros Hy Hz. unfold unflat, flat_index.
  replace (k / (ny * nz)) with (k / nz / ny) by (rewrite Z.div_div by lia; f_equal; ring).
  pose proof (Z.div_mod k nz ltac:(lia)). pose proof (Z.div_mod (k / nz) ny ltac:(lia)).
  pose proof (Z.mod_pos_bound k nz Hz). pose proof (Z.mod_pos_bound (k / nz) ny Hy).
  repeat split; try lia; nia.
Qed.

Lemma unflat_range nx ny nz k : 0 < ny -> 0 < nz -> 0 <= k < nx * ny * nz ->
  0 <= fst (fst (unflat ny nz k)) < nx.
Proof.
  intros Hy Hz Hk. unfold unflat. cbn [fst]. assert (P : 0 < ny * nz) by nia. split.
  - apply Z.div_pos; lia.
  - apply Z.div_lt_upper_bound; [lia|]. replace (ny * nz * nx) with (nx * ny * nz) by ring. lia.
Qed.

Lemma flat_index_range nx ny nz i j l : 0 <= i < nx -> 0 <= j < ny -> 0 <= l < nz ->
  0 <= flat_index ny nz i j l < nx * ny * nz.
Proof.
  unfold flat_index. intros Hi Hj Hl.
  assert (A1 : 0 <= i * ny) by (apply Z.mul_nonneg_nonneg; lia).
  assert (A2 : i * ny <= (nx - 1) * ny) by (apply Z.mul_le_mono_nonneg_r; lia).
  assert (A3 : 0 <= i * ny + j <= nx * ny - 1) by lia.
  assert (A4 : 0 <= (i * ny + j) * nz) by (apply Z.mul_nonneg_nonneg; lia).
  assert (A5 : (i * ny + j) * nz <= (nx * ny - 1) * nz) by (apply Z.mul_le_mono_nonneg_r; lia).
  lia.
Qed.

Lemma flat_index_inj ny nz i j l i' j' l' : 0 <= j < ny -> 0 <= l < nz -> 0 <= j' < ny -> 0 <= l' < nz ->
  flat_index ny nz i j l = flat_index ny nz i' j' l' -> (i, j, l) = (i', j', l').
Proof. intros Hj Hl Hj' Hl' E. rewrite <- (flat_unflat_l ny nz i j l), E by assumption. now apply flat_unflat_l. Qed.

(** ------------------------------------------------------------------ the x-major product *)
Lemma flat_map_uniform_length {A B} (f : A -> list B) m xs :
  (forall x, length (f x) = m) -> length (flat_map f xs) = (length xs * m)%nat.
Proof. intros H. induction xs; simpl; [reflexivity|]. rewrite app_length, IHxs, H. lia. Qed.

Lemma flat_map_uniform_nth {A B} (f : A -> list B) m da d : (forall x, length (f x) = m) ->
  forall xs i j, (i < length xs)%nat -> (j < m)%nat ->
  nth (i * m + j) (flat_map f xs) d = nth j (f (nth i xs da)) d.
Proof.
  intros H. induction xs as [|x t IH]; intros i j Hi Hj; simpl in Hi; [lia|]. simpl flat_map.
  destruct i.
  - change (0 * m + j)%nat with j. rewrite app_nth1 by (rewrite H; lia). reflexivity.
  - replace (S i * m + j)%nat with (m + (i * m + j))%nat by lia.
    rewrite app_nth2 by (rewrite H; lia). rewrite H.
    replace (m + (i * m + j) - m)%nat with (i * m + j)%nat by lia.
    change (nth (S i) (x :: t) da) with (nth i t da). apply IH; lia.
Qed.

Lemma product3_length {A B C} (xs : list A) (ys : list B) (zs : list C) :
  length (product3 xs ys zs) = (length xs * (length ys * length zs))%nat.
Proof.
  unfold product3. apply flat_map_uniform_length. intros x.
  apply flat_map_uniform_length. intros y. apply map_length.
Qed.

Lemma product3_nth_nat {A B C} (xs : list A) (ys : list B) (zs : list C) da db dc i j l :
  (i < length xs)%nat -> (j < length ys)%nat -> (l < length zs)%nat ->
  nth ((i * length ys + j) * length zs + l) (product3 xs ys zs) (da, db, dc) = (nth i xs da, nth j ys db, nth l zs dc).
Proof.
  intros Hi Hj Hl. unfold product3.
  replace ((i * length ys + j) * length zs + l)%nat with (i * (length ys * length zs) + (j * length zs + l))%nat by lia.
  rewrite (flat_map_uniform_nth _ (length ys * length zs)%nat da); [| |assumption|nia].
  2:{ intros x. apply flat_map_uniform_length. intros y. apply map_length. }
  rewrite (flat_map_uniform_nth _ (length zs) db); [| |assumption|assumption].
  2:{ intros y. apply map_length. }
  rewrite (nth_indep _ (da, db, dc) ((fun z => (nth i xs da, nth j ys db, z)) dc)) by (rewrite map_length; lia).
  apply (map_nth (fun z => (nth i xs da, nth j ys db, z))).
Qed.

Lemma zlen_product3 {A B C} (xs : list A) (ys : list B) (zs : list C) :
  zlen (product3 xs ys zs) = zlen xs * zlen ys * zlen zs.
Proof. unfold zlen. rewrite product3_length. lia. Qed.

(** element flat_index(i,j,l) of the stacked list is (x_i, y_j, z_l) *)
Lemma product3_znth {A B C} (xs : list A) (ys : list B) (zs : list C) d da db dc i j l :
  0 <= i < zlen xs -> 0 <= j < zlen ys -> 0 <= l < zlen zs ->
  znth d (product3 xs ys zs) (flat_index (zlen ys) (zlen zs) i j l) = (znth da xs i, znth db ys j, znth dc zs l).
Proof.
  intros Hi Hj Hl.
  assert (R : 0 <= flat_index (zlen ys) (zlen zs) i j l < zlen (product3 xs ys zs)).
  { rewrite zlen_product3. apply flat_index_range; assumption. }
  rewrite (znth_indep d (da, db, dc)) by exact R.
  unfold znth, flat_index, zlen in *.
  rewrite <- (Z2Nat.id i), <- (Z2Nat.id j), <- (Z2Nat.id l) at 1 by lia.
  rewrite <- !Nat2Z.inj_mul, <- !Nat2Z.inj_add, <- !Nat2Z.inj_mul, <- !Nat2Z.inj_add, Nat2Z.id.
  apply product3_nth_nat; lia.
Qed.

Lemma In_product3 {A B C} (xs : list A) (ys : list B) (zs : list C) x y z :
  In (x, y, z) (product3 xs ys zs) <-> In x xs /\ In y ys /\ In z zs.
Proof.
  unfold product3. rewrite in_flat_map. split.
  - intros (x' & Hx & H). rewrite in_flat_map in H. destruct H as (y' & Hy & H).
    rewrite in_map_iff in H. destruct H as (z' & E & Hz). inversion E; subst. tauto.
  - intros (Hx & Hy & Hz). exists x. split; [assumption|]. rewrite in_flat_map. exists y. split; [assumption|].
    rewrite in_map_iff. exists z. tauto.
Qed.

Lemma product3_map {A B C A' B' C'} (f : A -> A') (g : B -> B') (h : C -> C') xs ys zs :
  product3 (map f xs) (map g ys) (map h zs) =
  map (fun p : A * B * C => let '(x, y, z) := p in (f x, g y, h z)) (product3 xs ys zs).
Proof.
  unfold product3. induction xs as [|x xt IHx]; simpl; [reflexivity|]. rewrite map_app, IHx. f_equal.
  clear IHx. induction ys as [|y yt IHy]; simpl; [reflexivity|]. rewrite map_app, IHy. f_equal.
  rewrite !map_map. reflexivity.
Qed.

Lemma NoDup_app_intro {A} (l1 l2 : list A) :
  NoDup l1 -> NoDup l2 -> (forall x, In x l1 -> In x l2 -> False) -> NoDup (l1 ++ l2).
Proof.
  intros H1 H2 D. induction H1 as [|a t Ha H1 IH]; simpl; [assumption|]. constructor.
  - rewrite in_app_iff. intros [H|H]; [contradiction|]. apply (D a); [now left|assumption].
  - apply IH. intros x Hx. apply D. now right.
Qed.

Lemma product3_NoDup {A B C} (xs : list A) (ys : list B) (zs : list C) :
  NoDup xs -> NoDup ys -> NoDup zs -> NoDup (product3 xs ys zs).
Proof.
  intros Hx Hy Hz. unfold product3. induction Hx as [|x xt Hnx Hx IHx]; simpl; [constructor|].
  assert (Hinner : forall x0 : A, NoDup (flat_map (fun y : B => map (fun z : C => (x0, y, z)) zs) ys)).
  { intros x0. clear -Hy Hz. induction Hy as [|y yt Hny Hy IHy]; simpl; [constructor|].
    apply NoDup_app_intro; [|assumption|].
    - apply FinFun.Injective_map_NoDup; [|assumption]. intros a b E. now inversion E.
    - intros p H1 H2. rewrite in_map_iff in H1. destruct H1 as (z & <- & _).
      rewrite in_flat_map in H2. destruct H2 as (y' & Hy' & H2). rewrite in_map_iff in H2.
      destruct H2 as (z' & E & _). inversion E; subst. contradiction. }
  apply NoDup_app_intro; [apply Hinner|apply IHx|].
  intros p H1 H2. rewrite in_flat_map in H1, H2. destruct H1 as (y & _ & H1). destruct H2 as (x' & Hx' & H2).
  rewrite in_map_iff in H1. destruct H1 as (z & <- & _).
  rewrite in_flat_map in H2. destruct H2 as (y' & _ & H2). rewrite in_map_iff in H2.
  destruct H2 as (z' & E & _). inversion E; subst. contradiction.
Qed.

(** ------------------------------------------------------------------ grids: coordinates in flat order *)
Section Grid.
Context {T : Type} (O : Ops T).

Lemma zlen_arange_mul n s : zlen (arange_mul O n s) = Z.max 0 n.
Proof. unfold arange_mul. now rewrite zlen_map, zlen_zrange. Qed.

Lemma znth_arange_mul d n s i : 0 <= i < n -> znth d (arange_mul O n s) i = mul O (ofZ O i) s.
Proof.
  intros H. unfold arange_mul. rewrite (znth_map _ d 0) by (rewrite zlen_zrange; lia).
  now rewrite znth_zrange.
Qed.

Lemma zlen_flat_coords (a : axes T) :
  zlen (flat_coords a) = zlen (fst (fst a)) * zlen (snd (fst a)) * zlen (snd a).
Proof. destruct a as [[xs ys] zs]. apply zlen_product3. Qed.

(** element flat_index(i,j,l) of the flat coordinate list of ANY axes is (x_i, y_j, z_l) *)
Lemma flat_coords_znth (xs ys zs : list T) d dx dy dz i j l :
  0 <= i < zlen xs -> 0 <= j < zlen ys -> 0 <= l < zlen zs ->
  znth d (flat_coords (xs, ys, zs)) (flat_index (zlen ys) (zlen zs) i j l) = (znth dx xs i, znth dy ys j, znth dz zs l).
Proof. apply product3_znth. Qed.

(** the k-th flat pixel sits at (x_i, y_j, z_l) with (i,j,l) = unflat k : every flat pixel is covered *)
Lemma flat_coords_unflat (xs ys zs : list T) d dx dy dz k :
  0 <= k < zlen (flat_coords (xs, ys, zs)) ->
  let '(i, j, l) := unflat (zlen ys) (zlen zs) k in
  znth d (flat_coords (xs, ys, zs)) k = (znth dx xs i, znth dy ys j, znth dz zs l).
Proof.
  intros Hk. rewrite zlen_flat_coords in Hk. cbn [fst snd] in Hk.
  pose proof (zlen_nonneg xs). pose proof (zlen_nonneg ys). pose proof (zlen_nonneg zs).
  assert (Hy : 0 < zlen ys) by nia. assert (Hz : 0 < zlen zs) by nia.
  pose proof (unflat_flat_l (zlen ys) (zlen zs) k Hy Hz) as U.
  pose proof (unflat_range (zlen xs) (zlen ys) (zlen zs) k Hy Hz Hk) as Ri.
  destruct (unflat (zlen ys) (zlen zs) k) as [[i j] l]. cbn [fst] in Ri.
  destruct U as (E & Hj & Hl). rewrite <- E at 1. now apply flat_coords_znth.
Qed.

(** make_coords: pixel (i,j) of an nx x ny grid with spacing (sx,sy) at height z *)
Lemma make_coords_znth nx ny sx sy z d i j : 0 <= i < nx -> 0 <= j < ny ->
  znth d (flat_coords (make_coords O nx ny sx sy z)) (flat_index ny 1 i j 0)
  = (mul O (ofZ O i) sx, mul O (ofZ O j) sy, z).
Proof.
  intros Hi Hj. unfold make_coords.
  pose proof (flat_coords_znth (arange_mul O nx sx) (arange_mul O ny sy) [z] d (zero O) (zero O) (zero O) i j 0) as P.
  rewrite !zlen_arange_mul in P. replace (Z.max 0 ny) with ny in P by lia. change (zlen [z]) with 1 in P.
  rewrite P by lia. now rewrite !znth_arange_mul by lia.
Qed.

Lemma make_coords_length nx ny sx sy z : 0 <= nx -> 0 <= ny ->
  zlen (flat_coords (make_coords O nx ny sx sy z)) = nx * ny.
Proof. intros. unfold make_coords. rewrite zlen_flat_coords. cbn [fst snd]. rewrite !zlen_arange_mul. change (zlen [z]) with 1. lia. Qed.

(** shifted origin: the flat list of the re-assigned coordinates is the shifted flat list *)
Definition shift_pos (t p : pos T) : pos T :=
  let '(tx, ty, tz) := t in let '(x, y, z) := p in (add O x tx, add O y ty, add O z tz).
Lemma flat_coords_shift a t : flat_coords (shift_axes O a t) = map (shift_pos t) (flat_coords a).
Proof.
  destruct a as [[xs ys] zs], t as [[tx ty] tz]. unfold shift_axes, flat_coords. rewrite product3_map.
  apply map_ext. intros [[x y] z]. reflexivity.
Qed.

(** a crop re-uses the selected axis entries *)
Lemma flat_coords_crop (xs ys zs : list T) xi yj d :
  Forall (fun k => 0 <= k < zlen xs) xi -> Forall (fun k => 0 <= k < zlen ys) yj ->
  flat_coords (crop_axes O (xs, ys, zs) xi yj)
  = subset d (crop_sel (zlen ys) (zlen zs) xi yj (zrange (zlen zs))) (flat_coords (xs, ys, zs)).
Proof.
  intros Hx Hy. unfold crop_axes, crop_sel, subset at 3, flat_coords. rewrite map_map.
  rewrite <- (map_znth_zrange (zero O) zs) at 1. unfold subset. rewrite product3_map.
  apply map_ext_in. intros [[i j] l] Hin. apply In_product3 in Hin. destruct Hin as (Hi & Hj & Hl).
  rewrite Forall_forall in Hx, Hy. apply In_zrange in Hl.
  symmetry. apply product3_znth; auto.
Qed.
End Grid.

(** ------------------------------------------------------------------ stored image <-> flat values *)
Lemma stack_vals_znth {V} (d : V) nx ny nz data i j l : 0 <= i < nx -> 0 <= j < ny -> 0 <= l < nz ->
  znth d (stack_vals d nx ny nz data) (flat_index ny nz i j l) = znth d data (storage_index nx ny i j l).
Proof.
  intros Hi Hj Hl. unfold stack_vals.
  assert (L : forall n, 0 <= n -> zlen (zrange n) = n) by (intros; rewrite zlen_zrange; lia).
  rewrite (znth_map _ d (0, 0, 0)).
  2:{ rewrite zlen_product3, !L by lia. apply flat_index_range; assumption. }
  pose proof (product3_znth (zrange nx) (zrange ny) (zrange nz) (0, 0, 0) 0 0 0 i j l) as P.
  rewrite !L in P by lia. rewrite P by assumption. now rewrite !znth_zrange by assumption.
Qed.

(** flat() followed by from_flat() gives back every stored pixel *)
Lemma unstack_stack {V} (d : V) nx ny nz data i j l : 0 <= i < nx -> 0 <= j < ny -> 0 <= l < nz ->
  unstack_at d ny nz (stack_vals d nx ny nz data) i j l = znth d data (storage_index nx ny i j l).
Proof. apply stack_vals_znth. Qed.

(** ------------------------------------------------------------------ explicit point lists *)
Definition px {T} (p : T * T * T) : T := fst (fst p).
Definition py {T} (p : T * T * T) : T := snd (fst p).
Definition pz {T} (p : T * T * T) : T := snd p.

Lemma rep_sing_self {A} (l : list A) : rep_sing (length l) l = l.
Proof. destruct l as [|a [|b t]]; reflexivity. Qed.

Lemma zip3_unzip {T} (pts : list (T * T * T)) : zip3 (map px pts) (map py pts) (map pz pts) = pts.
Proof. induction pts as [|[[x y] z] t IH]; simpl; [reflexivity|]. now rewrite IH. Qed.

Lemma det_points_unzip {T} (pts : list (T * T * T)) : det_points (map px pts) (map py pts) (map pz pts) = pts.
Proof.
  unfold det_points. rewrite !map_length, !Nat.max_id.
  rewrite <- (map_length px pts) at 1. rewrite rep_sing_self.
  rewrite <- (map_length py pts) at 1. rewrite rep_sing_self.
  rewrite <- (map_length pz pts) at 1. rewrite rep_sing_self. apply zip3_unzip.
Qed.

(** detector_points(x, y, z=scalar): the scalar is repeated *)
Lemma det_points_scalar_z {T} (xs ys : list T) z : length xs = length ys -> (1 <= length xs)%nat ->
  det_points xs ys [z] = zip3 xs ys (repeat z (length xs)).
Proof.
  intros E H. unfold det_points. rewrite <- E. simpl length.
  replace (Nat.max (length xs) (Nat.max (length xs) 1)) with (length xs) by lia.
  rewrite rep_sing_self. rewrite E at 1. rewrite rep_sing_self. reflexivity.
Qed.

(** ------------------------------------------------------------------ selections *)
Lemma select_commutes_l {A B} (f : A -> B) d sel l : map f (subset d sel l) = subset (f d) sel (map f l).
Proof. unfold subset, znth. rewrite map_map. apply map_ext. intros k. symmetry. apply map_nth. Qed.

Lemma subset_length {V} (d : V) sel l : zlen (subset d sel l) = zlen sel.
Proof. unfold subset. apply zlen_map. Qed.

Lemma subset_znth {V} (d : V) sel l p : 0 <= p < zlen sel -> znth d (subset d sel l) p = znth d l (znth 0 sel p).
Proof. intros H. unfold subset. now rewrite (znth_map _ d 0). Qed.

Lemma subset_default_irrelevant {V} (d d' : V) sel l :
  Forall (fun k => 0 <= k < zlen l) sel -> subset d sel l = subset d' sel l.
Proof. intros H. unfold subset. apply map_ext_in. intros k Hk. rewrite Forall_forall in H. apply znth_indep. auto. Qed.

Lemma subset_all {V} (d : V) l : subset d (zrange (zlen l)) l = l.
Proof. apply map_znth_zrange. Qed.

(** the RNG contract, as a proposition *)
Lemma nodupb_NoDup l : nodupb l = true <-> NoDup l.
Proof.
  induction l as [|x t IH]; simpl; [split; [constructor|reflexivity]|].
  rewrite andb_true_iff, negb_true_iff, IH. split.
  - intros [H1 H2]. constructor; [|assumption]. intros Hin.
    assert (existsb (Z.eqb x) t = true) by (apply existsb_exists; exists x; split; [assumption|apply Z.eqb_refl]). congruence.
  - intros H. inversion H as [|? ? Hn Ht]; subst. split; [|assumption].
    destruct (existsb (Z.eqb x) t) eqn:E; [|reflexivity]. apply existsb_exists in E.
    destruct E as (y & Hy & Hxy). apply Z.eqb_eq in Hxy. subst. contradiction.
Qed.

Lemma sel_ok_spec n m sel :
  sel_ok n m sel = true <-> zlen sel = m /\ Forall (fun k => 0 <= k < n) sel /\ NoDup sel.
Proof.
  unfold sel_ok. rewrite !andb_true_iff, Z.eqb_eq, nodupb_NoDup, forallb_forall, Forall_forall.
  split.
  - intros [[H1 H2] H3]. split; [assumption|split; [|assumption]].
    intros k Hk. specialize (H2 k Hk). rewrite andb_true_iff in H2. lia.
  - intros (H1 & H2 & H3). split; [split; [assumption|]|assumption].
    intros k Hk. specialize (H2 k Hk). apply andb_true_iff. lia.
Qed.

Lemma subset_NoDup {V} (d : V) sel l :
  NoDup l -> NoDup sel -> Forall (fun k => 0 <= k < zlen l) sel -> NoDup (subset d sel l).
Proof.
  intros Hl Hs Hr. unfold subset. induction Hs as [|k t Hk Hs IH]; simpl; [constructor|].
  inversion Hr as [|? ? Hk0 Ht]; subst. constructor; [|now apply IH].
  intros Hin. apply in_map_iff in Hin. destruct Hin as (k' & E & Hk').
  rewrite Forall_forall in Ht. specialize (Ht k' Hk'). unfold znth, zlen in *.
  apply (proj1 (NoDup_nth l d) Hl) in E; [|lia|lia]. assert (k' = k) by lia. subst. contradiction.
Qed.

Lemma sel_all_permutation n sel : 0 <= n -> zlen sel = n -> Forall (fun k => 0 <= k < n) sel -> NoDup sel ->
  Permutation sel (zrange n).
Proof.
  intros Hn Hl Hr Hd. apply NoDup_Permutation_bis; [assumption| |].
  - unfold zrange, zlen in *. rewrite zrange_from_length. lia.
  - intros k Hk. rewrite Forall_forall in Hr. apply In_zrange. auto.
Qed.

Lemma subset_all_pixels_permutation {V} (d : V) sel l :
  sel_ok (zlen l) (zlen l) sel = true -> Permutation (subset d sel l) l.
Proof.
  intros H. apply sel_ok_spec in H. destruct H as (H1 & H2 & H3).
  rewrite <- (subset_all d l) at 2. unfold subset. apply Permutation_map.
  apply sel_all_permutation; auto. apply zlen_nonneg.
Qed.

(** ------------------------------------------------------------------ crops (subimage): python-slice semantics *)
Lemma py_norm_range n a : 0 <= n -> 0 <= py_norm n a <= n.
Proof. intros H. unfold py_norm. destruct (Z.ltb_spec a 0); lia. Qed.

Lemma slice_idx_In n a b k : In k (slice_idx n a b) <-> py_norm n a <= k < py_norm n b.
Proof. unfold slice_idx. rewrite zrange_from_In. lia. Qed.

Lemma crop_idx_range n c2 s : 0 <= n -> Forall (fun k => 0 <= k < n) (crop_idx n c2 s).
Proof.
  intros H. unfold crop_idx. destruct (sub_extent c2 s) as [a b]. apply Forall_forall. intros k Hk.
  apply slice_idx_In in Hk. pose proof (py_norm_range n a H). pose proof (py_norm_range n b H). lia.
Qed.

Lemma crop_idx_NoDup n c2 s : NoDup (crop_idx n c2 s).
Proof. unfold crop_idx. destruct (sub_extent c2 s). unfold slice_idx. apply zrange_from_NoDup. Qed.

Lemma rhe2_even m : rhe2 (2 * m) = m.
Proof.
  unfold rhe2. cbn zeta. replace (2 * m / 2) with m by (apply Z.div_unique_exact; lia).
  replace (2 * m mod 2) with 0; [reflexivity|]. apply (Z.mod_unique_pos _ _ m); lia.
Qed.

(** a window of even size 2h around an integer centre c that lies inside the image keeps exactly
    the pixels c-h .. c+h-1 *)
Lemma crop_idx_inside_even n c h : 0 <= c - h -> c + h <= n -> 0 <= h ->
  crop_idx n (2 * c) (2 * h) = zrange_from (c - h) (Z.to_nat (2 * h)).
Proof.
  intros H1 H2 H3. unfold crop_idx, sub_extent. rewrite rhe2_even.
  replace (2 * c - 2 * h) with (2 * (c - h)) by ring. replace (2 * c + 2 * h) with (2 * (c + h)) by ring.
  rewrite !rhe2_even. unfold slice_idx, py_norm.
  destruct (Z.ltb_spec (c - h) 0); [lia|]. destruct (Z.ltb_spec (c + h) 0); [lia|].
  rewrite !Z.min_l by lia. f_equal. lia.
Qed.

Lemma crop_sel_range nx ny nz xi yj zl :
  Forall (fun k => 0 <= k < nx) xi -> Forall (fun k => 0 <= k < ny) yj -> Forall (fun k => 0 <= k < nz) zl ->
  Forall (fun k => 0 <= k < nx * ny * nz) (crop_sel ny nz xi yj zl).
Proof.
  intros Hx Hy Hz. unfold crop_sel. apply Forall_forall. intros k Hk. apply in_map_iff in Hk.
  destruct Hk as ([[i j] l] & <- & Hin). apply In_product3 in Hin. destruct Hin as (Hi & Hj & Hl).
  rewrite Forall_forall in Hx, Hy, Hz. apply flat_index_range; auto.
Qed.

Lemma crop_sel_NoDup nx ny nz xi yj zl :
  Forall (fun k => 0 <= k < nx) xi -> Forall (fun k => 0 <= k < ny) yj -> Forall (fun k => 0 <= k < nz) zl ->
  NoDup xi -> NoDup yj -> NoDup zl -> NoDup (crop_sel ny nz xi yj zl).
Proof.
  intros Hx Hy Hz Dx Dy Dz. unfold crop_sel. rewrite Forall_forall in Hx, Hy, Hz.
  assert (G : forall l0 : list (Z * Z * Z), NoDup l0 ->
            (forall i j l, In (i, j, l) l0 -> 0 <= j < ny /\ 0 <= l < nz) ->
            NoDup (map (fun ijl : Z * Z * Z => let '(i, j, l) := ijl in flat_index ny nz i j l) l0)).
  { induction 1 as [|[[i j] l] t Hn Hd IH]; intros R; simpl; constructor.
    - intros Hin. apply in_map_iff in Hin. destruct Hin as ([[i' j'] l'] & E & Hin').
      destruct (R i j l (or_introl eq_refl)). destruct (R i' j' l' (or_intror Hin')).
      symmetry in E. apply (flat_index_inj ny nz i j l i' j' l') in E; try assumption. rewrite <- E in Hin'. contradiction.
    - apply IH. intros i0 j0 l0 H0. apply (R i0 j0 l0). now right. }
  apply G; [now apply product3_NoDup|]. intros i j l Hin. apply In_product3 in Hin. destruct Hin as (_ & Hj & Hl). auto.
Qed.

(** ------------------------------------------------------------------ calculations *)
Section CalcThms.
Context {T : Type} (O : Ops T) {V : Type}.

(** for ANY theory (pointwise or not): a grid and the explicit point list of its coordinates
    hand the theory the same array of positions, hence give the same values *)
Lemma grid_eq_points_l (F : list (pos T) -> list V) k c a :
  calc_grid O F k c a
  = calc_points O F k c (det_points (map px (flat_coords a)) (map py (flat_coords a)) (map pz (flat_coords a))).
Proof. unfold calc_grid, calc_points. now rewrite det_points_unzip. Qed.

Variable f : pos T -> V.        (* a pointwise theory: F = map f *)

Lemma calc_flat_pointwise k c coords :
  calc_flat O (map f) k c coords = map (fun p => f (to_theory O k c p)) coords.
Proof. unfold calc_flat, positions. apply map_map. Qed.

Lemma calc_flat_length k c coords : zlen (calc_flat O (map f) k c coords) = zlen coords.
Proof. rewrite calc_flat_pointwise. apply zlen_map. Qed.

Lemma calc_flat_znth k c coords d dp p : 0 <= p < zlen coords ->
  znth d (calc_flat O (map f) k c coords) p = f (to_theory O k c (znth dp coords p)).
Proof. intros H. rewrite calc_flat_pointwise. exact (znth_map (fun p => f (to_theory O k c p)) d dp coords p H). Qed.

(** THE property: two detectors of any kind; equal positions => equal values *)
Lemma value_depends_only_on_position_l k c coords1 coords2 d dp p q :
  0 <= p < zlen coords1 -> 0 <= q < zlen coords2 -> znth dp coords1 p = znth dp coords2 q ->
  znth d (calc_flat O (map f) k c coords1) p = znth d (calc_flat O (map f) k c coords2) q.
Proof. intros Hp Hq E. rewrite (calc_flat_znth _ _ _ d dp p Hp), (calc_flat_znth _ _ _ d dp q Hq). now rewrite E. Qed.

Lemma calc_grid_pixel_l k c xs ys zs d dx dy dz i j l :
  0 <= i < zlen xs -> 0 <= j < zlen ys -> 0 <= l < zlen zs ->
  znth d (calc_grid O (map f) k c (xs, ys, zs)) (flat_index (zlen ys) (zlen zs) i j l)
  = f (to_theory O k c (znth dx xs i, znth dy ys j, znth dz zs l)).
Proof.
  intros Hi Hj Hl. unfold calc_grid. rewrite (calc_flat_znth _ _ _ d (dx, dy, dz)).
  - now rewrite (flat_coords_znth xs ys zs (dx, dy, dz) dx dy dz).
  - rewrite zlen_flat_coords. cbn [fst snd]. now apply flat_index_range.
Qed.

Lemma calc_subset_commutes_l k c a sel :
  calc_subset O (map f) k c a sel
  = subset (f (to_theory O k c (zero O, zero O, zero O))) sel (calc_grid O (map f) k c a).
Proof.
  unfold calc_subset, calc_grid. rewrite !calc_flat_pointwise.
  exact (select_commutes_l (fun p => f (to_theory O k c p)) (zero O, zero O, zero O) sel (flat_coords a)).
Qed.

Lemma calc_subset_pixel_l k c a sel d p :
  0 <= p < zlen sel -> 0 <= znth 0 sel p < zlen (flat_coords a) ->
  znth d (calc_subset O (map f) k c a sel) p = znth d (calc_grid O (map f) k c a) (znth 0 sel p).
Proof.
  intros Hp Hr. rewrite calc_subset_commutes_l.
  rewrite (znth_indep d (f (to_theory O k c (zero O, zero O, zero O)))) by (rewrite subset_length; assumption).
  rewrite subset_znth by assumption. apply znth_indep. unfold calc_grid. now rewrite calc_flat_length.
Qed.

Lemma calc_crop_commutes_l k c xs ys zs xi yj d :
  Forall (fun k => 0 <= k < zlen xs) xi -> Forall (fun k => 0 <= k < zlen ys) yj ->
  calc_grid O (map f) k c (crop_axes O (xs, ys, zs) xi yj)
  = subset d (crop_sel (zlen ys) (zlen zs) xi yj (zrange (zlen zs))) (calc_grid O (map f) k c (xs, ys, zs)).
Proof.
  intros Hx Hy. unfold calc_grid.
  rewrite (flat_coords_crop O xs ys zs xi yj (zero O, zero O, zero O) Hx Hy).
  rewrite !calc_flat_pointwise, (select_commutes_l (fun p => f (to_theory O k c p))). apply subset_default_irrelevant.
  rewrite zlen_map, zlen_flat_coords. cbn [fst snd]. apply crop_sel_range; try assumption.
  apply Forall_forall. intros l Hl. now apply In_zrange.
Qed.
End CalcThms.

(** ------------------------------------------------------------------ make_subset_data *)
Lemma make_subset_keeps_l {T V} (O : Ops T) (dv : V) xs ys zs vals (at_ : attrs T) sel m :
  zlen vals = zlen (flat_coords (xs, ys, zs)) -> 1 <= zlen zs -> sel_ok (tot_pix xs ys) m sel = true ->
  let s := make_subset O dv (xs, ys, zs) vals at_ sel in
  let d0 := (zero O, zero O, zero O) in
  NoDup sel /\ zlen (ss_vals s) = m /\ zlen (ss_coords s) = m /\
  (forall p, 0 <= p < m ->
     0 <= znth 0 sel p < zlen vals /\
     znth dv (ss_vals s) p = znth dv vals (znth 0 sel p) /\
     znth d0 (ss_coords s) p = znth d0 (flat_coords (xs, ys, zs)) (znth 0 sel p)) /\
  ss_attrs s = at_ /\
  ss_orig s = [("z", zs); ("x", xs); ("y", ys)]%string /\
  (NoDup xs -> NoDup ys -> NoDup zs -> NoDup (ss_coords s)).
Proof.
  intros Hv Hz Hs. apply sel_ok_spec in Hs. destruct Hs as (Hm & Hr & Hd). cbn zeta.
  unfold make_subset. cbn [ss_vals ss_coords ss_attrs ss_orig].
  assert (Hr' : Forall (fun k => 0 <= k < zlen (flat_coords (xs, ys, zs))) sel).
  { rewrite zlen_flat_coords. cbn [fst snd]. unfold tot_pix in Hr. eapply Forall_impl; [|exact Hr].
    intros k Hk. cbn beta in *. pose proof (zlen_nonneg xs). pose proof (zlen_nonneg ys). nia. }
  split; [assumption|]. rewrite !subset_length. repeat split; try assumption.
  - pose proof (znth_In 0 sel p ltac:(lia)) as Hin. rewrite Forall_forall in Hr'. specialize (Hr' _ Hin). lia.
  - pose proof (znth_In 0 sel p ltac:(lia)) as Hin. rewrite Forall_forall in Hr'. specialize (Hr' _ Hin). lia.
  - apply subset_znth. lia.
  - apply subset_znth. lia.
  - intros Dx Dy Dz. apply subset_NoDup; [now apply product3_NoDup|assumption|assumption].
Qed.

(** ------------------------------------------------------------------ purity and history independence of the model *)
Section Purity.
Context {T : Type} (O : Ops T) {V W : Type} (dv : V) (F : list (pos T) -> list W).

Lemma step_input_unchanged (d : detector T V) o : fst (step O dv F d o) = d.
Proof.
  destruct o; simpl; try reflexivity.
  - destruct (d_axes d) as [[xs ys] zs]. reflexivity.
  - destruct d. reflexivity.
Qed.

Lemma run_spec : forall ops (d : detector T V),
  run O dv F d ops = (d, map (fun o => snd (step O dv F d o)) ops).
Proof.
  induction ops as [|o t IH]; intros d; simpl; [reflexivity|].
  pose proof (step_input_unchanged d o) as E. destruct (step O dv F d o) as [d1 r]. cbn [fst snd] in *. subst d1.
  now rewrite IH.
Qed.
End Purity.

(** ------------------------------------------------------------------ attrs (insertion-ordered dict) *)
Section AttrThms.
Context {T : Type}.
Implicit Types (a : attrs T) (k : string) (v : option (list T)).

Lemma get_set_same k v a : get_attr k (set_attr k v a) = Some v.
Proof.
  induction a as [|[k' v'] t IH]; simpl; [now rewrite String.eqb_refl|].
  destruct (String.eqb k k') eqn:E; simpl; rewrite ?String.eqb_refl, ?E; auto.
Qed.

Lemma get_set_other k k' v a : k <> k' -> get_attr k' (set_attr k v a) = get_attr k' a.
Proof.
  intros N. induction a as [|[k2 v2] t IH]; simpl.
  - destruct (String.eqb_spec k' k); [congruence|reflexivity].
  - destruct (String.eqb_spec k k2); simpl.
    + subst k2. destruct (String.eqb_spec k' k); [congruence|reflexivity].
    + destruct (String.eqb k' k2); [reflexivity|exact IH].
Qed.

Lemma has_get k a : has_attr k a = match get_attr k a with Some _ => true | None => false end.
Proof. unfold has_attr. induction a as [|[k' v'] t IH]; simpl; [reflexivity|]. destruct (String.eqb k k'); [reflexivity|exact IH]. Qed.

Lemma get_app k a b : get_attr k (a ++ b) = match get_attr k a with Some x => Some x | None => get_attr k b end.
Proof. induction a as [|[k' v'] t IH]; simpl; [reflexivity|]. destruct (String.eqb k k'); [reflexivity|exact IH]. Qed.

Lemma get_none_notin k a : ~ In k (map fst a) -> get_attr k a = None.
Proof.
  induction a as [|[k' v'] t IH]; simpl; intros H; [reflexivity|].
  destruct (String.eqb_spec k k'); [subst; tauto|]. apply IH. tauto.
Qed.

Lemma updated_get : forall (upd a : attrs T) k, NoDup (map fst upd) ->
  get_attr k (updated a upd) = match get_attr k upd with Some (Some x) => Some (Some x) | _ => get_attr k a end.
Proof.
  unfold updated. induction upd as [|[k1 v1] t IH]; intros a k D; simpl; [reflexivity|].
  inversion D as [|? ? Hn Dt]; subst. rewrite IH by assumption.
  destruct (String.eqb_spec k k1).
  - subst k1. rewrite (get_none_notin k t Hn). destruct v1; simpl; [apply get_set_same|reflexivity].
  - destruct (get_attr k t) as [[x|]|]; try reflexivity; destruct v1; simpl; try reflexivity;
      apply get_set_other; congruence.
Qed.

Lemma fill_get : forall (upd b : attrs T) k,
  get_attr k (fold_left (fun (acc : attrs T) (kv : string * option (list T)) =>
                           if has_attr (fst kv) acc then acc else acc ++ [(fst kv, None)]) upd b)
  = match get_attr k b with Some x => Some x | None => if has_attr k upd then Some None else None end.
Proof.
  induction upd as [|[k1 v1] t IH]; intros b k; [simpl; now destruct (get_attr k b)|].
  cbn [fold_left fst]. rewrite IH. clear IH.
  replace (has_attr k ((k1, v1) :: t)) with (String.eqb k k1 || has_attr k t)%bool by reflexivity.
  rewrite (has_get k1 b).
  destruct (String.eqb_spec k k1) as [->|N]; cbn [orb].
  - destruct (get_attr k1 b) eqn:E; [now rewrite E|]. rewrite get_app, E. simpl. now rewrite String.eqb_refl.
  - destruct (get_attr k1 b) eqn:E1; [reflexivity|]. rewrite get_app. destruct (get_attr k b); [reflexivity|].
    simpl. destruct (String.eqb_spec k k1); [congruence|reflexivity].
Qed.

(** update_metadata: input attrs untouched; output = explicit lookup semantics *)
Lemma update_metadata_spec a mi wl pol nsd k :
  let upd := [("medium_index", mi); ("illum_wavelen", wl); ("illum_polarization", pol); ("noise_sd", nsd)]%string in
  fst (update_metadata a mi wl pol nsd) = a /\
  get_attr k (snd (update_metadata a mi wl pol nsd)) =
    match get_attr k upd with
    | Some (Some x) => Some (Some x)                        (* a given value overwrites *)
    | Some None => match get_attr k a with Some x => Some x | None => Some None end   (* None never overwrites; missing key is created as None *)
    | None => get_attr k a                                  (* other keys are kept *)
    end.
Proof.
  cbn zeta. unfold update_metadata. cbn [fst snd]. split; [reflexivity|].
  rewrite fill_get, updated_get.
  2:{ simpl. repeat constructor; simpl; intuition discriminate. }
  rewrite has_get. destruct (get_attr k _) as [[x|]|]; try reflexivity; now destruct (get_attr k a).
Qed.
End AttrThms.

(** ------------------------------------------------------------------ real numbers: translation, Q/R link *)
Local Open Scope R_scope.
Lemma to_theory_translate k (c p t : pos R) :
  to_theory RO k (shift_pos RO t c) (shift_pos RO t p) = to_theory RO k c p.
Proof.
  destruct c as [[cx cy] cz], p as [[x y] z], t as [[tx ty] tz]. unfold to_theory, shift_pos. cbn [add sub mul RO].
  f_equal; [f_equal|]; ring.
Qed.

(** moving detector and scatterer together: the theory is handed the same positions (any theory) *)
Lemma calc_grid_translate {V} (F : list (pos R) -> list V) k c a t :
  calc_grid RO F k (shift_pos RO t c) (shift_axes RO a t) = calc_grid RO F k c a.
Proof.
  unfold calc_grid, calc_flat, positions. rewrite flat_coords_shift, map_map. f_equal.
  apply map_ext. intros p. apply to_theory_translate.
Qed.

Definition posQ2R (p : pos Q) : pos R := let '(x, y, z) := p in (Q2R x, Q2R y, Q2R z).
Lemma to_theory_Q_R k c p : posQ2R (to_theory QO k c p) = to_theory RO (Q2R k) (posQ2R c) (posQ2R p).
Proof.
  destruct c as [[cx cy] cz], p as [[x y] z]. unfold to_theory, posQ2R.
  f_equal; [f_equal|]; q2r.
Qed.
Lemma arange_mul_Q_R n s : map Q2R (arange_mul QO n s) = arange_mul RO n (Q2R s).
Proof. unfold arange_mul. rewrite map_map. apply map_ext. intros i. q2r. Qed.
Lemma holo_px_Q_R p1 p2 sc E :
  Q2R (holo_px QO p1 p2 sc E)
  = holo_px RO (Q2R p1) (Q2R p2) (Q2R sc)
      (let '((xr, xi), (yr, yi), (zr, zi)) := E in ((Q2R xr, Q2R xi), (Q2R yr, Q2R yi), (Q2R zr, Q2R zi))).
Proof. destruct E as [[[xr xi] [yr yi]] [zr zi]]. unfold holo_px, sq. q2r. Qed.

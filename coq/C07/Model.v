(** C07 - pixel value depends only on position: grids, points, crops, subsets agree.
    Executable model (no proofs here).
    Anchors: core/metadata.py (make_coords / data_grid / detector_grid / detector_points /
    flat / from_flat / make_subset_data / update_metadata / copy_metadata),
    scattering/imageformation.py (_transform_to_desired_coordinates, _pack_field_into_xarray),
    scattering/interface.py (finalize, scattered_field_to_hologram), core/process/img_proc.py (subimage).

    Oracles (enter as arguments / Section variables, never as axioms):
      - the scattering theory  F : list pos -> list V   (raw_fields on an array of positions);
      - np.random.choice(tot_pix, pixels, replace=False): the selection [sel : list Z];
      - np.exp(-1j k cz): the phase, a complex number handed in by the harness;
      - to_vector's normalisation (sqrt) of the polarisation: attrs carry the value it returned. *)
From Coq Require Import String ZArith List Bool.
From HV Require Import Common.Generic.
Import ListNotations.
Open Scope Z_scope.

(** ---------------------------------------------------------------- indices (discrete) *)
Fixpoint zrange_from (i : Z) (n : nat) : list Z :=
  match n with O => [] | S m => i :: zrange_from (i + 1) m end.
Definition zrange (n : Z) : list Z := zrange_from 0 (Z.to_nat n).          (* np.arange(n) *)
Definition zlen {A} (l : list A) : Z := Z.of_nat (length l).
Definition znth {A} (d : A) (l : list A) (k : Z) : A := nth (Z.to_nat k) l d.

(** a.stack(flat=('x','y','z')): the flat dimension is the x-major product of the three axes *)
Definition product3 {A B C} (xs : list A) (ys : list B) (zs : list C) : list (A * B * C) :=
  flat_map (fun x => flat_map (fun y => map (fun z => (x, y, z)) zs) ys) xs.
Definition flat_index (ny nz i j l : Z) : Z := (i * ny + j) * nz + l.
Definition unflat (ny nz k : Z) : Z * Z * Z := (k / (ny * nz), (k / nz) mod ny, k mod nz).
(** the image itself is stored with dims (z, x, y), C order *)
Definition storage_index (nx ny i j l : Z) : Z := (l * nx + i) * ny + j.
Definition stack_vals {V} (d : V) (nx ny nz : Z) (data : list V) : list V :=
  map (fun ijl : Z * Z * Z => let '(i, j, l) := ijl in znth d data (storage_index nx ny i j l))
      (product3 (zrange nx) (zrange ny) (zrange nz)).
(** from_flat / unstack of a complete flat array: dims (x, y, z), C order = the flat order itself;
    the pixel (i,j,l) of the un-flattened result is element flat_index of the flat list *)
Definition unstack_at {V} (d : V) (ny nz : Z) (flatvals : list V) (i j l : Z) : V :=
  znth d flatvals (flat_index ny nz i j l).

(** isel(flat=selection): positional selection *)
Definition subset {V} (d : V) (sel : list Z) (l : list V) : list V := map (znth d l) sel.

(** make_subset_data: tot_pix = len(x) * len(y) (as the code says: z is not counted) *)
Definition tot_pix {A B} (xs : list A) (ys : list B) : Z := zlen xs * zlen ys.
(** contract of the RNG oracle np.random.choice(n, m, replace=False) *)
Fixpoint nodupb (l : list Z) : bool :=
  match l with [] => true | x :: t => negb (existsb (Z.eqb x) t) && nodupb t end.
Definition sel_ok (n m : Z) (sel : list Z) : bool :=
  (zlen sel =? m) && forallb (fun k => (0 <=? k) && (k <? n)) sel && nodupb sel.

(** subimage: np.round (half to even) of the centre, then int(np.round(c -+ s/2)), python slices *)
Definition rhe2 (n : Z) : Z :=          (* round-half-even of n/2 *)
  let q := n / 2 in if n mod 2 =? 0 then q else if q mod 2 =? 0 then q else q + 1.
Definition sub_extent (c2 s : Z) : Z * Z :=   (* centre given as c2/2, requested size s *)
  let c := rhe2 c2 in (rhe2 (2 * c - s), rhe2 (2 * c + s)).
Definition py_norm (n a : Z) : Z := if a <? 0 then Z.max (a + n) 0 else Z.min a n.
Definition slice_idx (n a b : Z) : list Z :=
  let s := py_norm n a in let e := py_norm n b in zrange_from s (Z.to_nat (e - s)).
Definition crop_idx (n c2 s : Z) : list Z := let '(a, b) := sub_extent c2 s in slice_idx n a b.
(** the flat indices (of the full image) of the pixels kept by a crop *)
Definition crop_sel (ny nz : Z) (xi yj zl : list Z) : list Z :=
  map (fun ijl : Z * Z * Z => let '(i, j, l) := ijl in flat_index ny nz i j l) (product3 xi yj zl).

(** detector_points / repeat_sing_dims: length-1 coordinates are repeated to the longest *)
Definition rep_sing {A} (n : nat) (l : list A) : list A :=
  match l with [a] => repeat a n | _ => l end.
Fixpoint zip3 {A B C} (xs : list A) (ys : list B) (zs : list C) : list (A * B * C) :=
  match xs, ys, zs with x :: xt, y :: yt, z :: zt => (x, y, z) :: zip3 xt yt zt | _, _, _ => [] end.
Definition det_points {A} (xs ys zs : list A) : list (A * A * A) :=
  let n := Nat.max (length xs) (Nat.max (length ys) (length zs)) in
  zip3 (rep_sing n xs) (rep_sing n ys) (rep_sing n zs).

(** attrs: an insertion-ordered dict; values are None / scalar (1 element) / vector *)
Section Attrs.
Context {T : Type}.
Definition attrs : Type := list (string * option (list T)).
Fixpoint set_attr (k : string) (v : option (list T)) (a : attrs) : attrs :=
  match a with
  | [] => [(k, v)]
  | (k', v') :: t => if String.eqb k k' then (k, v) :: t else (k', v') :: set_attr k v t
  end.
Definition has_attr (k : string) (a : attrs) : bool := existsb (fun kv => String.eqb k (fst kv)) a.
Fixpoint get_attr (k : string) (a : attrs) : option (option (list T)) :=
  match a with [] => None | (k', v) :: t => if String.eqb k k' then Some v else get_attr k t end.
(** utils.updated with filter_none: None values do not overwrite *)
Definition updated (a upd : attrs) : attrs :=
  fold_left (fun (acc : attrs) (kv : string * option (list T)) =>
               match snd kv with Some _ => set_attr (fst kv) (snd kv) acc | None => acc end) upd a.
(** update_metadata: works on a copy b; returns (input as left behind, output) *)
Definition update_metadata (a : attrs) (mi wl pol nsd : option (list T)) : attrs * attrs :=
  let upd := [("medium_index", mi); ("illum_wavelen", wl); ("illum_polarization", pol); ("noise_sd", nsd)]%string in
  let b := updated a upd in
  (a, fold_left (fun (acc : attrs) (kv : string * option (list T)) =>
                   if has_attr (fst kv) acc then acc else acc ++ [(fst kv, None)]) upd b).
End Attrs.
Arguments attrs T : clear implicits.

(** ---------------------------------------------------------------- numbers (generic carrier) *)
Section Gen.
Context {T : Type} (O : Ops T).
Declare Scope t_scope. Delimit Scope t_scope with t.
Local Notation "x + y" := (add O x y) : t_scope. Local Notation "x * y" := (mul O x y) : t_scope.
Local Notation "x - y" := (sub O x y) : t_scope.
Local Open Scope t_scope.

Definition pos : Type := (T * T * T)%type.
Definition axes : Type := (list T * list T * list T)%type.     (* (xs, ys, zs) *)

(** make_coords: x = np.arange(shape[1]) * spacing[0], y = np.arange(shape[2]) * spacing[1], z = [z] *)
Definition arange_mul (n : Z) (s : T) : list T := map (fun i => ofZ O i * s) (zrange n).
Definition make_coords (nx ny : Z) (sx sy z : T) : axes := (arange_mul nx sx, arange_mul ny sy, [z]).
Definition flat_coords (a : axes) : list pos := let '(xs, ys, zs) := a in product3 xs ys zs.
(** a grid whose coordinates were re-assigned (shifted origin) *)
Definition shift_axes (a : axes) (t : pos) : axes :=
  let '(xs, ys, zs) := a in let '(tx, ty, tz) := t in
  (map (fun x => x + tx) xs, map (fun y => y + ty) ys, map (fun z => z + tz) zs).
Definition crop_axes (a : axes) (xi yj : list Z) : axes :=
  let '(xs, ys, zs) := a in (subset (zero O) xi xs, subset (zero O) yj ys, zs).

(** _transform_to_desired_coordinates (cartesian branch): what a theory is handed for a pixel *)
Definition to_theory (k : T) (c p : pos) : pos :=
  let '(cx, cy, cz) := c in let '(x, y, z) := p in (k * (x - cx), k * (y - cy), k * (cz - z)).

(** complex numbers as pairs; field = (Ex, Ey, Ez) *)
Definition cplx : Type := (T * T)%type.
Definition cmul (a b : cplx) : cplx := (fst a * fst b - snd a * snd b, fst a * snd b + snd a * fst b).
Definition field : Type := (cplx * cplx * cplx)%type.
Definition fphase (ph : cplx) (E : field) : field :=
  let '(ex, ey, ez) := E in (cmul ex ph, cmul ey ph, cmul ez ph).
Definition sq (x : T) : T := x * x.
(** scattered_field_to_hologram / calc_intensity at one pixel (reference = polarisation (px,py,0)) *)
Definition holo_px (px py scaling : T) (E : field) : T :=
  let '((xr, xi), (yr, yi), _) := E in
  sq (xr * scaling + px) + sq (xi * scaling) + (sq (yr * scaling + py) + sq (yi * scaling)).
Definition inten_px (E : field) : T :=
  let '((xr, xi), (yr, yi), _) := E in sq xr + sq xi + (sq yr + sq yi).

(** the harness' mock theory (a ScatteringTheory subclass with cartesian coordinates):
    an exact polynomial of the position, so that float arithmetic on small dyadics is exact *)
Definition mock_f (a b c : T) (p : pos) : field :=
  let '(X, Y, Z) := p in
  ((a * X + b * (Y * Z), c * Y), (b * Z + a * (X * Y), X), (c + X, Z)).

(** calculation pipeline.  F is the theory acting on the whole array of positions. *)
Section Calc.
Context {V : Type} (F : list pos -> list V).
Definition positions (k : T) (c : pos) (coords : list pos) : list pos := map (to_theory k c) coords.
Definition calc_flat (k : T) (c : pos) (coords : list pos) : list V := F (positions k c coords).
(** grid: flat() -> theory -> _pack (same flat coordinate) -> finalize/from_flat: dims (x,y,z) *)
Definition calc_grid (k : T) (c : pos) (a : axes) : list V := calc_flat k c (flat_coords a).
Definition calc_points (k : T) (c : pos) (pts : list pos) : list V := calc_flat k c pts.
Definition calc_subset (k : T) (c : pos) (a : axes) (sel : list Z) : list V :=
  calc_flat k c (subset (zero O, zero O, zero O) sel (flat_coords a)).
End Calc.

(** make_subset_data: what the subset carries.  original_dims follows data.dims = (z, x, y). *)
Definition original_dims (a : axes) : list (string * list T) :=
  let '(xs, ys, zs) := a in [("z", zs); ("x", xs); ("y", ys)]%string.
Record subset_t (V : Type) := mkSubset {
  ss_vals : list V; ss_coords : list pos; ss_attrs : attrs T; ss_orig : list (string * list T) }.
Definition make_subset {V} (d : V) (a : axes) (flatvals : list V) (at_ : attrs T) (sel : list Z) : subset_t V :=
  mkSubset V (subset d sel flatvals) (subset (zero O, zero O, zero O) sel (flat_coords a)) at_ (original_dims a).

(** a history of API calls on ONE detector object: every call returns (detector left behind, result) *)
Inductive op :=
| OpField (k : T) (c : pos)                (* calc_field *)
| OpSubset (sel : list Z)                  (* make_subset_data *)
| OpCrop (xi yj : list Z)                  (* subimage *)
| OpMeta (mi wl pol nsd : option (list T)) (* update_metadata *)
| OpFlat.                                  (* flat *)
Record detector (V : Type) := mkDet { d_axes : axes; d_vals : list V (* flat order *); d_attrs : attrs T }.
Inductive result (V W : Type) :=
| RVals (w : list W) | RSub (s : subset_t V) | RDet (d : detector V).
Arguments RVals {V W}. Arguments RSub {V W}. Arguments RDet {V W}.
Definition step {V W} (dv : V) (F : list pos -> list W) (d : detector V) (o : op) : detector V * result V W :=
  match o with
  | OpField k c => (d, RVals (calc_grid F k c (d_axes V d)))
  | OpSubset sel => (d, RSub (make_subset dv (d_axes V d) (d_vals V d) (d_attrs V d) sel))
  | OpCrop xi yj =>
      let '(xs, ys, zs) := d_axes V d in
      (d, RDet (mkDet V (crop_axes (d_axes V d) xi yj)
                      (subset dv (crop_sel (zlen ys) (zlen zs) xi yj (zrange (zlen zs))) (d_vals V d))
                      (d_attrs V d)))
  | OpMeta mi wl pol nsd =>
      let '(a0, a1) := update_metadata (d_attrs V d) mi wl pol nsd in
      (mkDet V (d_axes V d) (d_vals V d) a0, RDet (mkDet V (d_axes V d) (d_vals V d) a1))
  | OpFlat => (d, RDet d)
  end.
Fixpoint run {V W} (dv : V) (F : list pos -> list W) (d : detector V) (ops : list op)
  : detector V * list (result V W) :=
  match ops with
  | [] => (d, [])
  | o :: t => let '(d1, r) := step dv F d o in let '(d2, rs) := run dv F d1 t in (d2, r :: rs)
  end.
End Gen.

Arguments pos T : clear implicits. Arguments axes T : clear implicits.
Arguments field T : clear implicits. Arguments cplx T : clear implicits.
Arguments op T : clear implicits. Arguments detector T V : clear implicits.
Arguments subset_t T V : clear implicits. Arguments result T V W : clear implicits.
Arguments ss_vals {T V}. Arguments ss_coords {T V}. Arguments ss_attrs {T V}. Arguments ss_orig {T V}.
Arguments d_axes {T V}. Arguments d_vals {T V}. Arguments d_attrs {T V}.
Arguments mkDet {T V}. Arguments mkSubset {T V}.

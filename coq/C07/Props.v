From Coq Require Import String ZArith List Bool.
From HV Require Import Common.Generic C07.Model C07.Lemmas.
Import ListNotations.
Theorem select_commutes : forall A B (f : A -> B) d sel l, map f (subset d sel l) = subset (f d) sel (map f l).
Proof. exact @select_commutes_l. Qed.
Print Assumptions select_commutes.

(** C07 property theorems: statements only; proofs are in Lemmas.v.
    All statements are about the definitions of Model.v that the correspondence executes.
    Theorems over a generic carrier [O : Ops T] hold for the executed instance QO and for RO alike. *)
From Coq Require Import String ZArith List Bool Permutation Reals QArith Qreals.
From HV Require Import Common.Generic C07.Model C07.Lemmas.
Import ListNotations.
Open Scope Z_scope.

(** ---- flat index <-> (i,j,l): every shape (ny, nz >= 1; 1xN is nx = 1, Nx1 is ny = 1, images nz = 1, volumes nz > 1) *)
Theorem flat_unflat : forall ny nz i j l, 0 <= j < ny -> 0 <= l < nz ->
  unflat ny nz (flat_index ny nz i j l) = (i, j, l).
Proof. exact flat_unflat_l. Qed.
Print Assumptions flat_unflat.

Theorem unflat_flat : forall ny nz k, 0 < ny -> 0 < nz ->
  let '(i, j, l) := unflat ny nz k in flat_index ny nz i j l = k /\ 0 <= j < ny /\ 0 <= l < nz.
Proof. exact unflat_flat_l. Qed.
Print Assumptions unflat_flat.

Theorem flat_index_in_range : forall nx ny nz i j l, 0 <= i < nx -> 0 <= j < ny -> 0 <= l < nz ->
  0 <= flat_index ny nz i j l < nx * ny * nz.
Proof. exact flat_index_range. Qed.
Print Assumptions flat_index_in_range.

Theorem unflat_in_range : forall nx ny nz k, 0 < ny -> 0 < nz -> 0 <= k < nx * ny * nz ->
  0 <= fst (fst (unflat ny nz k)) < nx.
Proof. exact unflat_range. Qed.
Print Assumptions unflat_in_range.

(** ---- grids: the flat (x-major) coordinate list of ANY axes (any spacing, anisotropy, origin, crop) *)
Theorem grid_flat_order : forall T (xs ys zs : list T) d dx dy dz i j l,
  0 <= i < zlen xs -> 0 <= j < zlen ys -> 0 <= l < zlen zs ->
  znth d (flat_coords (xs, ys, zs)) (flat_index (zlen ys) (zlen zs) i j l) = (znth dx xs i, znth dy ys j, znth dz zs l).
Proof. exact @flat_coords_znth. Qed.
Print Assumptions grid_flat_order.

Theorem grid_every_flat_pixel : forall T (xs ys zs : list T) d dx dy dz k,
  0 <= k < zlen (flat_coords (xs, ys, zs)) ->
  let '(i, j, l) := unflat (zlen ys) (zlen zs) k in
  znth d (flat_coords (xs, ys, zs)) k = (znth dx xs i, znth dy ys j, znth dz zs l).
Proof. exact @flat_coords_unflat. Qed.
Print Assumptions grid_every_flat_pixel.

Theorem grid_size : forall T (a : axes T),
  zlen (flat_coords a) = zlen (fst (fst a)) * zlen (snd (fst a)) * zlen (snd a).
Proof. exact @zlen_flat_coords. Qed.
Print Assumptions grid_size.

(** make_coords / detector_grid / data_grid: pixel (i,j) of an nx x ny grid sits at (i*sx, j*sy, z) *)
Theorem make_coords_pixel : forall T (O : Ops T) nx ny sx sy z d i j, 0 <= i < nx -> 0 <= j < ny ->
  znth d (flat_coords (make_coords O nx ny sx sy z)) (flat_index ny 1 i j 0)
  = (mul O (ofZ O i) sx, mul O (ofZ O j) sy, z).
Proof. exact @make_coords_znth. Qed.
Print Assumptions make_coords_pixel.

(** flat(): flat element flat_index(i,j,l) is the stored pixel (l,i,j); from_flat(flat(.)) gives it back *)
Theorem flat_value_is_stored_pixel : forall V (d : V) nx ny nz data i j l,
  0 <= i < nx -> 0 <= j < ny -> 0 <= l < nz ->
  znth d (stack_vals d nx ny nz data) (flat_index ny nz i j l) = znth d data (storage_index nx ny i j l).
Proof. exact @stack_vals_znth. Qed.
Print Assumptions flat_value_is_stored_pixel.

Theorem from_flat_of_flat : forall V (d : V) nx ny nz data i j l,
  0 <= i < nx -> 0 <= j < ny -> 0 <= l < nz ->
  unstack_at d ny nz (stack_vals d nx ny nz data) i j l = znth d data (storage_index nx ny i j l).
Proof. exact @unstack_stack. Qed.
Print Assumptions from_flat_of_flat.

(** ---- grid = explicit points of its coordinates, for ANY theory F (pointwise or not) *)
Theorem grid_eq_points : forall T (O : Ops T) V (F : list (pos T) -> list V) k c a,
  calc_grid O F k c a
  = calc_points O F k c (det_points (map px (flat_coords a)) (map py (flat_coords a)) (map pz (flat_coords a))).
Proof. exact @grid_eq_points_l. Qed.
Print Assumptions grid_eq_points.

Theorem detector_points_roundtrip : forall T (pts : list (T * T * T)),
  det_points (map px pts) (map py pts) (map pz pts) = pts.
Proof. exact @det_points_unzip. Qed.
Print Assumptions detector_points_roundtrip.

Theorem detector_points_scalar_z : forall T (xs ys : list T) z, length xs = length ys -> (1 <= length xs)%nat ->
  det_points xs ys [z] = zip3 xs ys (repeat z (length xs)).
Proof. exact @det_points_scalar_z. Qed.
Print Assumptions detector_points_scalar_z.

(** ---- THE property, for every pointwise theory f: equal positions => equal values, whatever the two
    detectors are (grid, shifted grid, crop, point list, subset) and wherever the position sits in them *)
Theorem value_depends_only_on_position : forall T (O : Ops T) V (f : pos T -> V) k c coords1 coords2 d dp p q,
  0 <= p < zlen coords1 -> 0 <= q < zlen coords2 -> znth dp coords1 p = znth dp coords2 q ->
  znth d (calc_flat O (map f) k c coords1) p = znth d (calc_flat O (map f) k c coords2) q.
Proof. exact @value_depends_only_on_position_l. Qed.
Print Assumptions value_depends_only_on_position.

Theorem grid_pixel_value : forall T (O : Ops T) V (f : pos T -> V) k c xs ys zs d dx dy dz i j l,
  0 <= i < zlen xs -> 0 <= j < zlen ys -> 0 <= l < zlen zs ->
  znth d (calc_grid O (map f) k c (xs, ys, zs)) (flat_index (zlen ys) (zlen zs) i j l)
  = f (to_theory O k c (znth dx xs i, znth dy ys j, znth dz zs l)).
Proof. exact @calc_grid_pixel_l. Qed.
Print Assumptions grid_pixel_value.

(** ---- selecting pixels commutes with the forward calculation, for EVERY selection *)
Theorem select_commutes : forall A B (f : A -> B) d sel l, map f (subset d sel l) = subset (f d) sel (map f l).
Proof. exact @select_commutes_l. Qed.
Print Assumptions select_commutes.

Theorem subset_calc_commutes : forall T (O : Ops T) V (f : pos T -> V) k c a sel,
  calc_subset O (map f) k c a sel
  = subset (f (to_theory O k c (zero O, zero O, zero O))) sel (calc_grid O (map f) k c a).
Proof. exact @calc_subset_commutes_l. Qed.
Print Assumptions subset_calc_commutes.

Theorem subset_calc_pixel : forall T (O : Ops T) V (f : pos T -> V) k c a sel d p,
  0 <= p < zlen sel -> 0 <= znth 0 sel p < zlen (flat_coords a) ->
  znth d (calc_subset O (map f) k c a sel) p = znth d (calc_grid O (map f) k c a) (znth 0 sel p).
Proof. exact @calc_subset_pixel_l. Qed.
Print Assumptions subset_calc_pixel.

(** ---- crops *)
Theorem crop_is_subset : forall T (O : Ops T) (xs ys zs : list T) xi yj d,
  Forall (fun k => 0 <= k < zlen xs) xi -> Forall (fun k => 0 <= k < zlen ys) yj ->
  flat_coords (crop_axes O (xs, ys, zs) xi yj)
  = subset d (crop_sel (zlen ys) (zlen zs) xi yj (zrange (zlen zs))) (flat_coords (xs, ys, zs)).
Proof. exact @flat_coords_crop. Qed.
Print Assumptions crop_is_subset.

Theorem crop_calc_commutes : forall T (O : Ops T) V (f : pos T -> V) k c xs ys zs xi yj d,
  Forall (fun k => 0 <= k < zlen xs) xi -> Forall (fun k => 0 <= k < zlen ys) yj ->
  calc_grid O (map f) k c (crop_axes O (xs, ys, zs) xi yj)
  = subset d (crop_sel (zlen ys) (zlen zs) xi yj (zrange (zlen zs))) (calc_grid O (map f) k c (xs, ys, zs)).
Proof. exact @calc_crop_commutes_l. Qed.
Print Assumptions crop_calc_commutes.

(** subimage's index arithmetic (round-half-even, python slices) always yields valid, distinct pixels *)
Theorem crop_indices_valid : forall n c2 s, 0 <= n ->
  Forall (fun k => 0 <= k < n) (crop_idx n c2 s) /\ NoDup (crop_idx n c2 s).
Proof. intros n c2 s H. split; [exact (crop_idx_range n c2 s H)|exact (crop_idx_NoDup n c2 s)]. Qed.
Print Assumptions crop_indices_valid.

Theorem crop_inside_even : forall n c h, 0 <= c - h -> c + h <= n -> 0 <= h ->
  crop_idx n (2 * c) (2 * h) = zrange_from (c - h) (Z.to_nat (2 * h)).
Proof. exact crop_idx_inside_even. Qed.
Print Assumptions crop_inside_even.

Theorem crop_selection_valid : forall nx ny nz xi yj zl,
  Forall (fun k => 0 <= k < nx) xi -> Forall (fun k => 0 <= k < ny) yj -> Forall (fun k => 0 <= k < nz) zl ->
  NoDup xi -> NoDup yj -> NoDup zl ->
  Forall (fun k => 0 <= k < nx * ny * nz) (crop_sel ny nz xi yj zl) /\ NoDup (crop_sel ny nz xi yj zl).
Proof. intros. split; [now apply crop_sel_range|now apply (crop_sel_NoDup nx)]. Qed.
Print Assumptions crop_selection_valid.

(** ---- random subsets: the RNG is an oracle with contract sel_ok (evaluated on every observed draw) *)
Theorem rng_contract_meaning : forall n m sel,
  sel_ok n m sel = true <-> zlen sel = m /\ Forall (fun k => 0 <= k < n) sel /\ NoDup sel.
Proof. exact sel_ok_spec. Qed.
Print Assumptions rng_contract_meaning.

Theorem subset_keeps : forall T V (O : Ops T) (dv : V) xs ys zs vals (at_ : attrs T) sel m,
  zlen vals = zlen (flat_coords (xs, ys, zs)) -> 1 <= zlen zs -> sel_ok (tot_pix xs ys) m sel = true ->
  let s := make_subset O dv (xs, ys, zs) vals at_ sel in
  let d0 := (zero O, zero O, zero O) in
  NoDup sel /\ zlen (ss_vals s) = m /\ zlen (ss_coords s) = m /\
  (forall p, 0 <= p < m ->
     0 <= znth 0 sel p < zlen vals /\
     znth dv (ss_vals s) p = znth dv vals (znth 0 sel p) /\
     znth d0 (ss_coords s) p = znth d0 (flat_coords (xs, ys, zs)) (znth 0 sel p)) /\
  ss_attrs s = at_ /\
  ss_orig s = [("z", zs); ("x", xs); ("y", ys)]%string /\
  (NoDup xs -> NoDup ys -> NoDup zs -> NoDup (ss_coords s)).
Proof. exact @make_subset_keeps_l. Qed.
Print Assumptions subset_keeps.

Theorem subset_of_all_pixels_is_permutation : forall V (d : V) sel l,
  sel_ok (zlen l) (zlen l) sel = true -> Permutation (subset d sel l) l.
Proof. exact @subset_all_pixels_permutation. Qed.
Print Assumptions subset_of_all_pixels_is_permutation.

(** ---- purity and history independence: for every call sequence on one detector object the detector
    left behind is the detector given, and every result is the result on the untouched detector *)
Theorem inputs_unchanged : forall T (O : Ops T) V W (dv : V) (F : list (pos T) -> list W) ops (d : detector T V),
  run O dv F d ops = (d, map (fun o => snd (step O dv F d o)) ops).
Proof. exact @run_spec. Qed.
Print Assumptions inputs_unchanged.

(** ---- metadata: update_metadata leaves the input attrs alone; a given value overwrites, None never
    overwrites, a missing standard key is created as None, all other keys are kept *)
Theorem update_metadata_semantics : forall T (a : attrs T) mi wl pol nsd k,
  let upd := [("medium_index", mi); ("illum_wavelen", wl); ("illum_polarization", pol); ("noise_sd", nsd)]%string in
  fst (update_metadata a mi wl pol nsd) = a /\
  get_attr k (snd (update_metadata a mi wl pol nsd)) =
    match get_attr k upd with
    | Some (Some x) => Some (Some x)
    | Some None => match get_attr k a with Some x => Some x | None => Some None end
    | None => get_attr k a
    end.
Proof. exact @update_metadata_spec. Qed.
Print Assumptions update_metadata_semantics.

(** ---- shifted origin (real numbers): moving detector and scatterer together hands ANY theory the same positions *)
Theorem translate_together : forall V (F : list (pos R) -> list V) k c a t,
  calc_grid RO F k (shift_pos RO t c) (shift_axes RO a t) = calc_grid RO F k c a.
Proof. exact @calc_grid_translate. Qed.
Print Assumptions translate_together.

(** ---- what is executed (QO) is what the R statements are about *)
Theorem to_theory_agrees_on_Q : forall k c p,
  posQ2R (to_theory QO k c p) = to_theory RO (Q2R k) (posQ2R c) (posQ2R p).
Proof. exact to_theory_Q_R. Qed.
Print Assumptions to_theory_agrees_on_Q.

Theorem make_coords_agrees_on_Q : forall n s, map Q2R (arange_mul QO n s) = arange_mul RO n (Q2R s).
Proof. exact arange_mul_Q_R. Qed.
Print Assumptions make_coords_agrees_on_Q.

Theorem holo_px_agrees_on_Q : forall p1 p2 sc E,
  Q2R (holo_px QO p1 p2 sc E)
  = holo_px RO (Q2R p1) (Q2R p2) (Q2R sc)
      (let '((xr, xi), (yr, yi), (zr, zi)) := E in ((Q2R xr, Q2R xi), (Q2R yr, Q2R yi), (Q2R zr, Q2R zi))).
Proof. exact holo_px_Q_R. Qed.
Print Assumptions holo_px_agrees_on_Q.

(** ---- non-vacuity: the hypotheses are satisfiable by concrete non-trivial objects *)
Example hyps_satisfiable :
  (* a 2 x 3 image, 3 of 6 pixels drawn: the RNG contract holds, and the subset is what subset_keeps says *)
  sel_ok (tot_pix [0; 1]%Q [0; 1; 2]%Q) 3 [5; 0; 3] = true /\
  ss_coords (make_subset QO 0%Q ([0; 1]%Q, [0; 1; 2]%Q, [7]%Q) [10; 11; 12; 13; 14; 15]%Q [] [5; 0; 3])
    = [(1, 2, 7); (0, 0, 7); (1, 0, 7)]%Q /\
  ss_vals (make_subset QO 0%Q ([0; 1]%Q, [0; 1; 2]%Q, [7]%Q) [10; 11; 12; 13; 14; 15]%Q [] [5; 0; 3]) = [15; 10; 13]%Q /\
  (* 1xN and volume shapes of the index bijection *)
  unflat 4 1 (flat_index 4 1 0 3 0) = (0, 3, 0) /\ unflat 3 2 17 = (2, 2, 1) /\ flat_index 3 2 2 2 1 = 17 /\
  (* a crop with valid in-range indices: 5-pixel axis, centre 2.5 (-> 2, half-even), size 2 *)
  crop_idx 5 5 2 = [1; 2] /\ crop_idx 5 4 4 = [0; 1; 2; 3] /\ crop_idx 3 7 4 = [2] /\
  sel_ok 6 6 [4; 2; 0; 5; 1; 3] = true.
Proof. vm_compute. repeat split; reflexivity. Qed.

(** Comparison helpers used by generated correspondence files. *)
From Coq Require Import ZArith QArith List Bool.
Import ListNotations.

Fixpoint list_eqb {A} (e : A -> A -> bool) (a b : list A) : bool :=
  match a, b with
  | [], [] => true
  | x :: a', y :: b' => e x y && list_eqb e a' b'
  | _, _ => false
  end.
Definition zlist_eqb := list_eqb Z.eqb.
Definition blist_eqb := list_eqb Bool.eqb.
Definition qlist_eqb := list_eqb Qeq_bool.
Definition zpair_eqb (a b : Z * Z) : bool := Z.eqb (fst a) (fst b) && Z.eqb (snd a) (snd b).
Definition zpairs_eqb := list_eqb zpair_eqb.
Definition Qabs' (x : Q) : Q := if Qle_bool 0 x then x else Qopp x.
(** |a - b| <= tol * max(1,|b|)  -- tolerance comparison used where the implementation rounds *)
Definition qclose (tol a b : Q) : bool :=
  Qle_bool (Qabs' (a - b)) (tol * (if Qle_bool 1 (Qabs' b) then Qabs' b else 1)).
Definition qlist_close (tol : Q) := list_eqb (qclose tol).
Definition option_eqb {A} (e : A -> A -> bool) (a b : option A) : bool :=
  match a, b with Some x, Some y => e x y | None, None => true | _, _ => false end.

(** Ring/field-parametric carrier used by every model: one definition, two instances.
    [RO] is the object of the theorems; [QO] is what [vm_compute] runs on the exact rational
    value of the doubles the implementation received.  [Q2R] links them (see QR.v). *)
From Coq Require Import Reals QArith Qreals Lra Bool.

Record Ops (T : Type) := mkOps {
  zero : T; one : T;
  add : T -> T -> T; mul : T -> T -> T; sub : T -> T -> T; opp : T -> T;
  inv : T -> T;
  ltb : T -> T -> bool; leb : T -> T -> bool; eqb : T -> T -> bool;
  ofZ : Z -> T
}.
Arguments zero {T}. Arguments one {T}. Arguments add {T}. Arguments mul {T}.
Arguments sub {T}. Arguments opp {T}. Arguments inv {T}. Arguments ltb {T}.
Arguments leb {T}. Arguments eqb {T}. Arguments ofZ {T}.

Definition Rltb (x y : R) : bool := if Rlt_dec x y then true else false.
Definition Rleb (x y : R) : bool := if Rle_dec x y then true else false.
Definition Reqb (x y : R) : bool := if Req_EM_T x y then true else false.

Definition Qltb (x y : Q) : bool := negb (Qle_bool y x).

Definition RO : Ops R := mkOps R 0%R 1%R Rplus Rmult Rminus Ropp Rinv Rltb Rleb Reqb IZR.
Definition QO : Ops Q := mkOps Q 0%Q 1%Q Qplus Qmult Qminus Qopp Qinv Qltb Qle_bool Qeq_bool
                               (fun z => inject_Z z).

Lemma Rltb_true x y : Rltb x y = true <-> (x < y)%R.
Proof. unfold Rltb. destruct (Rlt_dec x y); split; intros; try discriminate; tauto. Qed.
Lemma Rltb_false x y : Rltb x y = false <-> (y <= x)%R.
Proof. unfold Rltb. destruct (Rlt_dec x y); split; intros; try discriminate; try lra; reflexivity. Qed.
Lemma Rleb_true x y : Rleb x y = true <-> (x <= y)%R.
Proof. unfold Rleb. destruct (Rle_dec x y); split; intros; try discriminate; tauto. Qed.
Lemma Rleb_false x y : Rleb x y = false <-> (y < x)%R.
Proof. unfold Rleb. destruct (Rle_dec x y); split; intros; try discriminate; try lra; reflexivity. Qed.
Lemma Reqb_true x y : Reqb x y = true <-> x = y.
Proof. unfold Reqb. destruct (Req_EM_T x y); split; intros; try discriminate; tauto. Qed.

Lemma Qltb_true x y : Qltb x y = true <-> (x < y)%Q.
Proof. unfold Qltb. rewrite negb_true_iff. split.
  - intros H. apply Qnot_le_lt. intro C. apply Qle_bool_iff in C. congruence.
  - intros H. destruct (Qle_bool y x) eqn:E; [|reflexivity]. apply Qle_bool_iff in E.
    exfalso. apply (Qlt_not_le _ _ H E). Qed.

(** agreement of the boolean tests of the two instances *)
Lemma Qltb_Rltb x y : Qltb x y = Rltb (Q2R x) (Q2R y).
Proof. destruct (Qltb x y) eqn:E.
  - symmetry. apply Rltb_true. apply Qlt_Rlt. apply Qltb_true. exact E.
  - symmetry. apply Rltb_false. apply Qle_Rle. unfold Qltb in E. rewrite negb_false_iff in E.
    apply Qle_bool_iff. exact E. Qed.
Lemma Qleb_Rleb x y : Qle_bool x y = Rleb (Q2R x) (Q2R y).
Proof. destruct (Qle_bool x y) eqn:E.
  - symmetry. apply Rleb_true. apply Qle_Rle. apply Qle_bool_iff. exact E.
  - symmetry. apply Rleb_false. apply Qlt_Rlt. apply Qnot_le_lt. intro C.
    apply Qle_bool_iff in C. congruence. Qed.
Lemma Qeqb_Reqb x y : Qeq_bool x y = Reqb (Q2R x) (Q2R y).
Proof. destruct (Qeq_bool x y) eqn:E.
  - symmetry. apply Reqb_true. apply Qeq_eqR. apply Qeq_bool_iff. exact E.
  - symmetry. unfold Reqb. destruct (Req_EM_T (Q2R x) (Q2R y)) as [H|H]; [|reflexivity].
    apply eqR_Qeq in H. apply Qeq_bool_iff in H. congruence. Qed.

(** rewriting database that pushes [Q2R] through the field operations *)
Lemma Q2R_0 : Q2R 0 = 0%R. Proof. unfold Q2R; simpl; lra. Qed.
Lemma Q2R_1 : Q2R 1 = 1%R. Proof. unfold Q2R; simpl; lra. Qed.
Lemma Q2R_inject_Z z : Q2R (inject_Z z) = IZR z.
Proof. unfold Q2R, inject_Z; simpl. lra. Qed.
#[export] Hint Rewrite Q2R_plus Q2R_mult Q2R_minus Q2R_opp Q2R_0 Q2R_1 Q2R_inject_Z : q2r.
#[export] Hint Rewrite Qltb_Rltb Qleb_Rleb Qeqb_Reqb : q2r.

Ltac q2r := cbn [zero one add mul sub opp inv ltb leb eqb ofZ RO QO];
            autorewrite with q2r; try reflexivity.

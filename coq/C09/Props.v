(** C09 property theorems (statements only; proofs in Lemmas.v). *)
From Coq Require Import ZArith List Bool Reals Lra Permutation QArith Qreals.
From HV Require Import Common.Generic C09.Model C09.Lemmas.
Import ListNotations.
Local Open Scope R_scope.

(* the documented rule, clause by clause, for every input *)
Theorem rule_single_sphere : default_theory RO SSphere = Use Mie.
Proof. reflexivity. Qed.
Print Assumptions rule_single_sphere.

Theorem rule_one_member_cluster : forall m, default_theory RO (SSpheres [m]) = Use Mie.
Proof. reflexivity. Qed.
Print Assumptions rule_one_member_cluster.

Theorem rule_cluster : forall ms, (length ms <> 1)%nat ->
  default_theory RO (SSpheres ms) =
    (if existsb unset ms then ErrInvalidScatterer          (* a centre or radius is not set *)
     else if existsb layered ms then Use Mie               (* a layered member: Mie superposition *)
     else if close_enough RO ms then Use Multisphere else Use Mie).
Proof. intros ms H. exact (choose_unfold RO ms H). Qed.
Print Assumptions rule_cluster.

Theorem rule_close_enough_is_30_radii : forall ms, ms <> [] ->
  (close_enough RO ms = true <->
   forall a b, In a ms -> In b ms ->
     dd (center_of RO a) (center_of RO b) <= sq RO (thirty RO * maxl RO (map (radius_of RO) ms))).
Proof. exact close_enough_iff. Qed.
Print Assumptions rule_close_enough_is_30_radii.

Theorem rule_sqrt_form_equivalent : forall a b r, 0 <= r ->
  (sqrt (dd a b) <= 30 * r <-> dd a b <= sq RO (thirty RO * r)).
Proof. exact sqrt_form_sound. Qed.
Print Assumptions rule_sqrt_form_equivalent.

Theorem rule_other_shapes :
  default_theory RO SSpheroid = Use Tmatrix /\ default_theory RO SCylinder = Use Tmatrix /\
  default_theory RO SOtherScatterer = Use DDA /\ default_theory RO SNotScatterer = ErrAutoTheoryFailed.
Proof. repeat split; reflexivity. Qed.
Print Assumptions rule_other_shapes.

Theorem auto_equals_naming_the_default : forall s t, default_theory RO s = Use t ->
  interpret_theory RO s None = interpret_theory RO s (Some t).
Proof. intros s t H. simpl. exact H. Qed.
Print Assumptions auto_equals_naming_the_default.

(* order independence and symmetry of the rule *)
Theorem default_theory_order_independent : forall ms ms', Permutation ms ms' ->
  default_theory RO (SSpheres ms) = default_theory RO (SSpheres ms').
Proof. exact choose_perm. Qed.
Print Assumptions default_theory_order_independent.

Theorem default_theory_rigid_motion_invariant : forall c s t ms, c*c + s*s = 1 ->
  default_theory RO (SSpheres (map (move (rotz_shift c s t)) ms)) = default_theory RO (SSpheres ms).
Proof. intros c s t ms H. apply choose_isometry. apply rotz_shift_isometry, H. Qed.
Print Assumptions default_theory_rigid_motion_invariant.

(* what the cluster solver is handed *)
Theorem solver_coordinates_order_covariant : forall k cs cs', Permutation cs cs' ->
  Permutation (scsmfo_centers RO k cs) (scsmfo_centers RO k cs').
Proof. exact scsmfo_centers_perm. Qed.
Print Assumptions solver_coordinates_order_covariant.

Theorem solver_coordinates_shift_invariant : forall k t cs, cs <> [] ->
  scsmfo_centers RO k (map (vaddR t) cs) = scsmfo_centers RO k cs.
Proof. exact scsmfo_centers_shift. Qed.
Print Assumptions solver_coordinates_shift_invariant.

Theorem solver_coordinates_rotation_covariant : forall k c s cs,
  scsmfo_centers RO k (map (rotz c s) cs) = map (rotz c s) (scsmfo_centers RO k cs).
Proof. exact scsmfo_centers_rotz. Qed.
Print Assumptions solver_coordinates_rotation_covariant.

Theorem rule_agrees_on_Q : forall ms, choose_mie_vs_multisphere QO ms = choose_mie_vs_multisphere RO (map mQ2R ms).
Proof. exact choose_Q_R. Qed.
Print Assumptions rule_agrees_on_Q.

(* non-vacuity: an exactly-on-the-boundary cluster (separation = 30 r) is still "close enough" *)
Example boundary_case :
  choose_mie_vs_multisphere QO
    [ {| m_center := Some (0,0,0)%Q; m_radius := Some [1%Q] |};
      {| m_center := Some (18,24,0)%Q; m_radius := Some [(1#2)%Q] |} ] = Use Multisphere /\
  choose_mie_vs_multisphere QO
    [ {| m_center := Some (0,0,0)%Q; m_radius := Some [1%Q] |};
      {| m_center := Some (18,24,(1#1024))%Q; m_radius := Some [(1#2)%Q] |} ] = Use Mie.
Proof. split; vm_compute; reflexivity. Qed.

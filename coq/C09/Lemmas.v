From Coq Require Import ZArith List Bool Reals Lra Lia Psatz Permutation QArith Qreals.
From HV Require Import Common.Generic C09.Model.
Import ListNotations.
Local Open Scope R_scope.

Notation vecR := (vec R).
Ltac veq := repeat match goal with |- (_, _) = (_, _) => apply f_equal2 end; try ring.

(** * maxima *)
Lemma tmax_R a b : tmax RO a b = Rmax a b.
Proof. unfold tmax; simpl. unfold Rltb, Rmax. destruct (Rlt_dec a b), (Rle_dec a b); try reflexivity; lra. Qed.

Lemma fold_tmax_ge l : forall a, a <= fold_left (tmax RO) l a /\ forall x, In x l -> x <= fold_left (tmax RO) l a.
Proof. induction l as [|y t IH]; intros a; simpl; [split; [lra|intros x []]|].
  destruct (IH (tmax RO a y)) as [H1 H2]. rewrite tmax_R in *. split.
  - eapply Rle_trans; [apply Rmax_l|exact H1].
  - intros x [<-|Hx]; [eapply Rle_trans; [apply Rmax_r|exact H1]|apply H2, Hx]. Qed.
Lemma fold_tmax_in l : forall a, fold_left (tmax RO) l a = a \/ In (fold_left (tmax RO) l a) l.
Proof. induction l as [|x t IH]; intros a; simpl; [left; reflexivity|].
  destruct (IH (tmax RO a x)) as [E|E]; [|right; right; exact E]. rewrite E, tmax_R.
  unfold Rmax. destruct (Rle_dec a x); [right; left; reflexivity|left; reflexivity]. Qed.

Lemma maxl_ub l x : In x l -> x <= maxl RO l.
Proof. destruct l as [|a t]; [intros []|]. simpl. destruct (fold_tmax_ge t a) as [H1 H2].
  intros [<-|Hx]; [exact H1|apply H2, Hx]. Qed.
Lemma maxl_in l : l <> [] -> In (maxl RO l) l.
Proof. destruct l as [|a t]; [congruence|]. intros _. simpl.
  destruct (fold_tmax_in t a) as [E|E]; [left; symmetry; exact E|right; exact E]. Qed.
Lemma maxl_le_iff l X : l <> [] -> (maxl RO l <= X <-> forall x, In x l -> x <= X).
Proof. intros Hne. split.
  - intros H x Hx. eapply Rle_trans; [apply maxl_ub, Hx|exact H].
  - intros H. apply H, maxl_in, Hne. Qed.
Lemma maxl_perm l l' : Permutation l l' -> maxl RO l = maxl RO l'.
Proof. intros P. destruct l as [|a t].
  - apply Permutation_nil in P. subst. reflexivity.
  - assert (Hne : a :: t <> []) by discriminate.
    assert (Hne' : l' <> []) by (intro E; subst; apply Permutation_sym, Permutation_nil in P; discriminate).
    apply Rle_antisym.
    + apply maxl_ub. eapply Permutation_in; [exact P|]. apply maxl_in, Hne.
    + apply maxl_ub. eapply Permutation_in; [apply Permutation_sym, P|]. apply maxl_in, Hne'. Qed.

Lemma existsb_perm {A} (f : A -> bool) l l' : Permutation l l' -> existsb f l = existsb f l'.
Proof. induction 1 as [|x l l' P IH|x y l|l l' l'' P1 IH1 P2 IH2]; simpl.
  - reflexivity. - rewrite IH; reflexivity.
  - destruct (f x), (f y); reflexivity. - congruence. Qed.

(** * the 30-radius test, for every cluster *)
Definition n2 (q : vecR) : R := let '(a,b,c) := q in a*a + b*b + c*c.
Definition vsubR (a b : vecR) : vecR := let '(a1,a2,a3) := a in let '(b1,b2,b3) := b in (a1-b1,a2-b2,a3-b3).
Definition vaddR (a b : vecR) : vecR := let '(a1,a2,a3) := a in let '(b1,b2,b3) := b in (a1+b1,a2+b2,a3+b3).
Definition dd (a b : vecR) : R := n2 (vsubR a b).
Lemma d2_R a b : d2 RO a b = dd a b.
Proof. destruct a as [[? ?] ?], b as [[? ?] ?]. reflexivity. Qed.
Lemma dd_nonneg a b : 0 <= dd a b.
Proof. destruct a as [[a1 a2] a3], b as [[b1 b2] b3]. unfold dd; simpl.
  pose proof (Rle_0_sqr (a1-b1)). pose proof (Rle_0_sqr (a2-b2)). pose proof (Rle_0_sqr (a3-b3)).
  unfold Rsqr in *. lra. Qed.

Lemma in_all_pairs (cs : list vecR) x :
  In x (flat_map (fun a => map (fun b => d2 RO a b) cs) cs) <-> exists a b, In a cs /\ In b cs /\ x = dd a b.
Proof. rewrite in_flat_map. split.
  - intros [a [Ha Hx]]. apply in_map_iff in Hx. destruct Hx as [b [E Hb]]. exists a, b. rewrite <- d2_R. auto.
  - intros [a [b [Ha [Hb E]]]]. exists a. split; [exact Ha|]. apply in_map_iff. exists b. rewrite d2_R. auto. Qed.

Lemma max_sep2_le_iff (cs : list vecR) X : cs <> [] ->
  (max_sep2 RO cs <= X <-> forall a b, In a cs -> In b cs -> dd a b <= X).
Proof. intros Hne. unfold max_sep2. rewrite maxl_le_iff.
  - split; [intros H a b Ha Hb; apply H, in_all_pairs; eauto|].
    intros H x Hx. apply in_all_pairs in Hx. destruct Hx as [a [b [Ha [Hb ->]]]]. auto.
  - destruct cs as [|c t]; [congruence|]. simpl. discriminate. Qed.

Definition bound (ms : list (msphere R)) : R := sq RO (thirty RO * maxl RO (map (radius_of RO) ms)).

Lemma close_enough_iff (ms : list (msphere R)) : ms <> [] ->
  (close_enough RO ms = true <->
   forall a b, In a ms -> In b ms -> dd (center_of RO a) (center_of RO b) <= bound ms).
Proof. intros Hne. unfold close_enough. cbn [leb RO]. rewrite Rleb_true. fold (bound ms).
  rewrite max_sep2_le_iff by (destruct ms; [congruence|discriminate]). split.
  - intros H a b Ha Hb. apply H; apply in_map; assumption.
  - intros H a b Ha Hb. apply in_map_iff in Ha, Hb. destruct Ha as [a' [<- Ha]], Hb as [b' [<- Hb]]. auto. Qed.

(** the code's sqrt form: norm(...).max() <= 30*max_radius *)
Lemma sqrt_le_sq d s : 0 <= d -> 0 <= s -> (sqrt d <= s <-> d <= s * s).
Proof. intros Hd Hs. split; intros H.
  - rewrite <- (sqrt_def d Hd). pose proof (sqrt_pos d). nra.
  - apply Rsqr_incr_0; [|apply sqrt_pos|exact Hs]. unfold Rsqr. rewrite sqrt_def by exact Hd. exact H. Qed.

Lemma sqrt_form_sound a b r : 0 <= r -> (sqrt (dd a b) <= 30 * r <-> dd a b <= sq RO (thirty RO * r)).
Proof. intros Hr. unfold sq, thirty. cbn [mul ofZ RO]. apply sqrt_le_sq; [apply dd_nonneg|lra]. Qed.

(** * invariance under re-ordering the spheres *)
Lemma bound_perm ms ms' : Permutation ms ms' -> bound ms = bound ms'.
Proof. intros P. unfold bound. do 2 f_equal. apply maxl_perm, Permutation_map, P. Qed.

Lemma close_enough_perm ms ms' : Permutation ms ms' -> close_enough RO ms = close_enough RO ms'.
Proof. intros P. destruct ms as [|m t].
  - apply Permutation_nil in P. subst. reflexivity.
  - assert (Hne : m :: t <> []) by discriminate.
    assert (Hne' : ms' <> []) by (intro E; subst; apply Permutation_sym, Permutation_nil in P; discriminate).
    destruct (close_enough RO (m :: t)) eqn:E1; destruct (close_enough RO ms') eqn:E2; try reflexivity.
    + rewrite close_enough_iff in E1 by exact Hne. exfalso.
      assert (close_enough RO ms' = true); [|congruence]. apply close_enough_iff; [exact Hne'|].
      intros a b Ha Hb. rewrite <- (bound_perm _ _ P).
      apply E1; eapply Permutation_in; try (apply Permutation_sym, P); assumption.
    + rewrite close_enough_iff in E2 by exact Hne'. exfalso.
      assert (close_enough RO (m :: t) = true); [|congruence]. apply close_enough_iff; [exact Hne|].
      intros a b Ha Hb. rewrite (bound_perm _ _ P). apply E2; eapply Permutation_in; try exact P; assumption. Qed.

Lemma choose_unfold {T} (O : Ops T) (l : list (msphere T)) : (length l <> 1)%nat ->
  choose_mie_vs_multisphere O l =
    (if existsb unset l then ErrInvalidScatterer else if existsb layered l then Use Mie
     else if close_enough O l then Use Multisphere else Use Mie).
Proof. destruct l as [|a [|b t]]; try reflexivity. simpl; congruence. Qed.

Lemma choose_perm ms ms' : Permutation ms ms' ->
  choose_mie_vs_multisphere RO ms = choose_mie_vs_multisphere RO ms'.
Proof. intros P. pose proof (Permutation_length P) as HL.
  assert (G : forall l l', Permutation l l' -> (length l <> 1)%nat ->
     choose_mie_vs_multisphere RO l =
       (if existsb unset l' then ErrInvalidScatterer else if existsb layered l' then Use Mie
        else if close_enough RO l' then Use Multisphere else Use Mie)).
  { intros l l' Q Hl. rewrite <- (existsb_perm _ _ _ Q), <- (existsb_perm _ _ _ Q), <- (close_enough_perm _ _ Q).
    destruct l as [|a [|b t]]; try reflexivity. simpl in Hl. congruence. }
  destruct (Nat.eq_dec (length ms) 1) as [E|E].
  - destruct ms as [|a [|b t]]; simpl in E; try discriminate. apply Permutation_length_1_inv in P. subst. reflexivity.
  - rewrite (G ms ms' P E). symmetry. apply G; [apply Permutation_refl|congruence]. Qed.

(** * invariance under rigid motions of the whole configuration *)
Definition move (f : vecR -> vecR) (m : msphere R) : msphere R :=
  {| m_center := option_map f (m_center m); m_radius := m_radius m |}.

Lemma existsb_ext {A} (f g : A -> bool) l : (forall x, f x = g x) -> existsb f l = existsb g l.
Proof. intros H. induction l; simpl; congruence. Qed.
Lemma existsb_map {A B} (f : B -> bool) (g : A -> B) l : existsb f (map g l) = existsb (fun x => f (g x)) l.
Proof. induction l; simpl; congruence. Qed.

Lemma choose_isometry f ms :
  (forall a b, dd (f a) (f b) = dd a b) ->
  choose_mie_vs_multisphere RO (map (move f) ms) = choose_mie_vs_multisphere RO ms.
Proof. intros Hf.
  assert (U : forall m, unset (move f m) = unset m) by (intros [[c|] [r|]]; reflexivity).
  assert (L : forall m, layered (move f m) = layered m) by (intros [c r]; reflexivity).
  assert (Rd : forall m, radius_of RO (move f m) = radius_of RO m) by (intros [c r]; reflexivity).
  destruct (Nat.eq_dec (length ms) 1) as [E1|E1].
  { destruct ms as [|a [|b t]]; simpl in E1; try discriminate. reflexivity. }
  rewrite !choose_unfold by (rewrite ?map_length; exact E1).
  rewrite !existsb_map. rewrite (existsb_ext (fun x => unset (move f x)) unset) by exact U.
  rewrite (existsb_ext (fun x => layered (move f x)) layered) by exact L.
  destruct (existsb unset ms) eqn:EU; [reflexivity|].
  assert (CE : close_enough RO (map (move f) ms) = close_enough RO ms).
    { destruct ms as [|m0 t0] eqn:Ems; [reflexivity|]. rewrite <- Ems in *.
      assert (Hne : ms <> []) by (rewrite Ems; discriminate).
      assert (Hne' : map (move f) ms <> []) by (rewrite Ems; discriminate).
      assert (B : bound (map (move f) ms) = bound ms).
      { unfold bound. rewrite map_map. rewrite (map_ext (fun x => radius_of RO (move f x)) (radius_of RO) Rd). reflexivity. }
      assert (AllSet : forall m, In m ms -> exists c, m_center m = Some c).
      { intros m Hm. destruct (m_center m) as [c|] eqn:Ec; [eauto|]. exfalso.
        assert (existsb unset ms = true); [|congruence]. apply existsb_exists. exists m. split; [exact Hm|].
        unfold unset. rewrite Ec. reflexivity. }
      assert (C : forall m, In m ms -> center_of RO (move f m) = f (center_of RO m)).
      { intros m Hm. destruct (AllSet m Hm) as [c Hc]. unfold center_of, move. simpl. rewrite Hc. reflexivity. }
      destruct (close_enough RO ms) eqn:EC1.
      + apply close_enough_iff; [exact Hne'|]. rewrite close_enough_iff in EC1 by exact Hne.
        intros a b Ha Hb. apply in_map_iff in Ha, Hb. destruct Ha as [a' [<- Ha]], Hb as [b' [<- Hb]].
        rewrite B, (C _ Ha), (C _ Hb), Hf. auto.
      + destruct (close_enough RO (map (move f) ms)) eqn:EC2; [|reflexivity]. exfalso.
        assert (close_enough RO ms = true); [|congruence]. apply close_enough_iff; [exact Hne|].
        rewrite close_enough_iff in EC2 by exact Hne'. intros a b Ha Hb.
        rewrite <- B, <- (Hf (center_of RO a)), <- (C _ Ha), <- (C _ Hb). apply EC2; apply in_map; assumption. }
  rewrite CE. reflexivity. Qed.

(** rotation about the optical axis followed by a shift is such a motion *)
Definition rotz_shift (c s : R) (t : vecR) (a : vecR) : vecR :=
  let '(x,y,z) := a in let '(t1,t2,t3) := t in (c*x - s*y + t1, s*x + c*y + t2, z + t3).
Lemma rotz_shift_isometry c s t : c*c + s*s = 1 -> forall a b, dd (rotz_shift c s t a) (rotz_shift c s t b) = dd a b.
Proof. intros H [[x y] z] [[x' y'] z']. destruct t as [[t1 t2] t3]. unfold dd, rotz_shift; simpl.
  replace ((c*x - s*y + t1 - (c*x' - s*y' + t1)) * (c*x - s*y + t1 - (c*x' - s*y' + t1)) +
           (s*x + c*y + t2 - (s*x' + c*y' + t2)) * (s*x + c*y + t2 - (s*x' + c*y' + t2)))
    with ((c*c + s*s) * ((x-x')*(x-x') + (y-y')*(y-y'))) by ring.
  rewrite H. ring. Qed.

(** * centroid-centred coordinates handed to the cluster solver *)
Definition vscaleR (k : R) (a : vecR) : vecR := let '(a1,a2,a3) := a in (k*a1, k*a2, k*a3).
Fixpoint sumr (l : list vecR) : vecR := match l with [] => (0,0,0) | x :: t => vaddR x (sumr t) end.
Lemma vadd_R a b : vadd RO a b = vaddR a b. Proof. destruct a as [[? ?] ?], b as [[? ?] ?]. reflexivity. Qed.
Lemma vaddR_comm a b : vaddR a b = vaddR b a.
Proof. destruct a as [[? ?] ?], b as [[? ?] ?]. simpl. veq. Qed.
Lemma vaddR_assoc a b c : vaddR a (vaddR b c) = vaddR (vaddR a b) c.
Proof. destruct a as [[? ?] ?], b as [[? ?] ?], c as [[? ?] ?]. simpl. veq. Qed.
Lemma vaddR_0 a : vaddR a (0,0,0) = a.
Proof. destruct a as [[? ?] ?]. simpl. veq. Qed.
Lemma fold_vadd l : forall a, fold_left (vadd RO) l a = vaddR a (sumr l).
Proof. induction l as [|x t IH]; intros a; cbn [fold_left sumr]; [rewrite vaddR_0; reflexivity|].
  rewrite IH. change (vadd RO a x) with (vaddR a x). rewrite vaddR_assoc. reflexivity. Qed.
Lemma vsum_R l : vsum RO l = sumr l.
Proof. unfold vsum. rewrite fold_vadd. cbn [zero RO]. rewrite vaddR_comm, vaddR_0. reflexivity. Qed.
Lemma sumr_perm l l' : Permutation l l' -> sumr l = sumr l'.
Proof. induction 1 as [|x l l' P IH|x y l|l l' l'' P1 IH1 P2 IH2]; simpl.
  - reflexivity. - rewrite IH; reflexivity.
  - rewrite !vaddR_assoc, (vaddR_comm y x). reflexivity. - congruence. Qed.

Lemma centroid_perm (cs cs' : list vecR) : Permutation cs cs' -> centroid RO cs = centroid RO cs'.
Proof. intros P. unfold centroid. rewrite !vsum_R, (sumr_perm _ _ P), <- (Permutation_length P). reflexivity. Qed.

(** re-ordering the spheres re-orders the centred coordinates and nothing else *)
Lemma scsmfo_centers_perm k (cs cs' : list vecR) : Permutation cs cs' ->
  Permutation (scsmfo_centers RO k cs) (scsmfo_centers RO k cs').
Proof. intros P. unfold scsmfo_centers. rewrite (centroid_perm _ _ P). apply Permutation_map, P. Qed.

Lemma sumr_shift t l : sumr (map (vaddR t) l) = vaddR (vscaleR (INR (length l)) t) (sumr l).
Proof. induction l as [|x r IH].
  - destruct t as [[? ?] ?]. simpl. veq.
  - cbn [map sumr length]. rewrite IH, S_INR. destruct t as [[t1 t2] t3], x as [[x1 x2] x3], (sumr r) as [[s1 s2] s3].
    simpl. veq. Qed.

Lemma INR_ofZ n : IZR (Z.of_nat n) = INR n. Proof. symmetry. apply INR_IZR_INZ. Qed.

(** shifting every sphere by the same vector leaves the solver's coordinates unchanged *)
Lemma scsmfo_centers_shift k t (cs : list vecR) : cs <> [] ->
  scsmfo_centers RO k (map (vaddR t) cs) = scsmfo_centers RO k cs.
Proof. intros Hne. unfold scsmfo_centers. rewrite map_map. apply map_ext. intros c.
  unfold centroid. rewrite !vsum_R, sumr_shift, map_length. cbn [inv ofZ RO]. rewrite INR_ofZ.
  assert (Hn : INR (length cs) <> 0) by (apply not_0_INR; destruct cs; [congruence|simpl; lia]).
  destruct t as [[t1 t2] t3], c as [[c1 c2] c3], (sumr cs) as [[s1 s2] s3]. simpl.
  veq; field; exact Hn. Qed.

(** rotating the configuration about the optical axis rotates the solver's coordinates *)
Definition rotz (c s : R) (a : vecR) : vecR := let '(x,y,z) := a in (c*x - s*y, s*x + c*y, z).
Lemma sumr_rotz c s l : sumr (map (rotz c s) l) = rotz c s (sumr l).
Proof. induction l as [|x r IH]; simpl; [veq|].
  rewrite IH. destruct x as [[x1 x2] x3], (sumr r) as [[s1 s2] s3]. simpl. veq. Qed.
Lemma scsmfo_centers_rotz k c s (cs : list vecR) :
  scsmfo_centers RO k (map (rotz c s) cs) = map (rotz c s) (scsmfo_centers RO k cs).
Proof. unfold scsmfo_centers. rewrite !map_map. apply map_ext. intros a.
  unfold centroid. rewrite !vsum_R, sumr_rotz, map_length.
  destruct a as [[a1 a2] a3], (sumr cs) as [[s1 s2] s3]. simpl. veq. Qed.

(** * Q instance = R instance on the decision *)
Definition vQ2R (v : Q * Q * Q) : vecR := let '(a,b,c) := v in (Q2R a, Q2R b, Q2R c).
Definition mQ2R (m : msphere Q) : msphere R :=
  {| m_center := option_map vQ2R (m_center m); m_radius := option_map (map Q2R) (m_radius m) |}.

Lemma tmax_Q_R a b : Q2R (tmax QO a b) = tmax RO (Q2R a) (Q2R b).
Proof. unfold tmax. cbn [ltb QO RO]. rewrite Qltb_Rltb. destruct (Rltb (Q2R a) (Q2R b)); reflexivity. Qed.
Lemma fold_tmax_Q_R l : forall a, Q2R (fold_left (tmax QO) l a) = fold_left (tmax RO) (map Q2R l) (Q2R a).
Proof. induction l as [|x t IH]; intros a; simpl; [reflexivity|]. rewrite IH, tmax_Q_R. reflexivity. Qed.
Lemma maxl_Q_R l : Q2R (maxl QO l) = maxl RO (map Q2R l).
Proof. destruct l as [|a t]; simpl; [apply Q2R_0|apply fold_tmax_Q_R]. Qed.

Lemma d2_Q_R a b : Q2R (d2 QO a b) = d2 RO (vQ2R a) (vQ2R b).
Proof. destruct a as [[a1 a2] a3], b as [[b1 b2] b3]. unfold d2, norm2, vsub, sq, vQ2R. q2r. Qed.

Lemma close_enough_Q_R ms : close_enough QO ms = close_enough RO (map mQ2R ms).
Proof. unfold close_enough. cbn [leb QO RO]. rewrite Qleb_Rleb. f_equal.
  - unfold max_sep2. rewrite maxl_Q_R. f_equal. rewrite !map_map.
    rewrite !flat_map_concat_map, concat_map, !map_map. f_equal. apply map_ext. intros m.
    rewrite !map_map. apply map_ext. intros m'. rewrite d2_Q_R. f_equal.
    + destruct m as [[c|] r]; simpl; [reflexivity|]. unfold vQ2R. rewrite Q2R_0. reflexivity.
    + destruct m' as [[c|] r]; simpl; [reflexivity|]. unfold vQ2R. rewrite Q2R_0. reflexivity.
  - unfold sq, thirty. cbn [mul ofZ QO RO]. autorewrite with q2r. rewrite maxl_Q_R, !map_map.
    do 3 f_equal; apply map_ext; intros [c [[|r t]|]]; simpl; try apply Q2R_0; reflexivity. Qed.

Lemma choose_Q_R ms : choose_mie_vs_multisphere QO ms = choose_mie_vs_multisphere RO (map mQ2R ms).
Proof.
  assert (U : forall m, unset m = unset (mQ2R m)) by (intros [[c|] [r|]]; reflexivity).
  assert (L : forall m, layered m = layered (mQ2R m)) by (intros [c [[|r [|r' t]]|]]; reflexivity).
  destruct (Nat.eq_dec (length ms) 1) as [E1|E1].
  { destruct ms as [|a [|b t]]; simpl in E1; try discriminate. reflexivity. }
  rewrite !choose_unfold by (rewrite ?map_length; exact E1).
  rewrite !existsb_map. rewrite (existsb_ext (fun x => unset (mQ2R x)) unset) by (intro; symmetry; apply U).
  rewrite (existsb_ext (fun x => layered (mQ2R x)) layered) by (intro; symmetry; apply L).
  rewrite close_enough_Q_R. reflexivity. Qed.

(** C09 - default-theory rule and cluster centring.  Executable model, no proofs.
    Anchors: interface.py determine_default_theory_for / _choose_mie_vs_multisphere / interpret_theory,
    multisphere.py _scsmfo_setup (centroid-centred coordinates, z flip). *)
From Coq Require Import ZArith List Bool.
From HV Require Import Common.Generic.
Import ListNotations.

Inductive theory := Mie | Multisphere | Tmatrix | DDA.
Inductive outcome := Use (t : theory) | ErrInvalidScatterer | ErrAutoTheoryFailed.

Section Gen.
Context {T : Type} (O : Ops T).
Declare Scope t_scope. Delimit Scope t_scope with t.
Local Notation "x + y" := (add O x y) : t_scope. Local Notation "x * y" := (mul O x y) : t_scope.
Local Notation "x - y" := (sub O x y) : t_scope. Local Notation "- x" := (opp O x) : t_scope.
Local Notation "x / y" := (mul O x (inv O y)) : t_scope.
Local Notation "x <? y" := (ltb O x y) : t_scope. Local Notation "x <=? y" := (leb O x y) : t_scope.
Local Open Scope t_scope.

Definition vec : Type := (T * T * T)%type.
Definition vsub (a b : vec) : vec := let '(a1,a2,a3) := a in let '(b1,b2,b3) := b in (a1-b1, a2-b2, a3-b3).
Definition vadd (a b : vec) : vec := let '(a1,a2,a3) := a in let '(b1,b2,b3) := b in (a1+b1, a2+b2, a3+b3).
Definition sq (x : T) : T := x * x.
Definition norm2 (a : vec) : T := let '(a1,a2,a3) := a in sq a1 + sq a2 + sq a3.
Definition d2 (a b : vec) : T := norm2 (vsub a b).

(** a member sphere as the rule sees it: centre (None = unset), radius: None = unset,
    Some [r] = scalar, Some (r1::r2::_) = layered (np.isscalar false) *)
Record msphere := { m_center : option vec; m_radius : option (list T) }.
Inductive scat :=
| SSphere                       (* a single Sphere (layered or not) *)
| SSpheres (ms : list msphere)
| SSpheroid | SCylinder
| SOtherScatterer               (* any other Scatterer instance: DDA.can_handle *)
| SNotScatterer.                (* not a Scatterer at all *)

Definition unset (m : msphere) : bool :=
  match m_center m, m_radius m with Some _, Some _ => false | _, _ => true end.
Definition layered (m : msphere) : bool :=
  match m_radius m with Some [_] => false | Some _ => true | None => false end.
Definition radius_of (m : msphere) : T := match m_radius m with Some (r :: _) => r | _ => zero O end.
Definition center_of (m : msphere) : vec := match m_center m with Some c => c | None => (zero O, zero O, zero O) end.

Definition tmax (a b : T) : T := if a <? b then b else a.
Definition maxl (l : list T) : T := match l with [] => zero O | x :: t => fold_left tmax t x end.

(** np.linalg.norm(dx, axis=2).max() <= 30*max_radius in sqrt-free form:
    max over all ordered pairs (incl. i=j, as the code's dx matrix) of the squared distance *)
Definition max_sep2 (cs : list vec) : T := maxl (flat_map (fun a => map (fun b => d2 a b) cs) cs).
Definition thirty : T := ofZ O 30.
Definition close_enough (ms : list msphere) : bool :=
  max_sep2 (map center_of ms) <=? sq (thirty * maxl (map radius_of ms)).

Definition choose_mie_vs_multisphere (ms : list msphere) : outcome :=
  match ms with
  | [_] => Use Mie
  | _ => if existsb unset ms then ErrInvalidScatterer
         else if existsb layered ms then Use Mie
         else if close_enough ms then Use Multisphere else Use Mie
  end.

Definition default_theory (s : scat) : outcome :=
  match s with
  | SSphere => Use Mie
  | SSpheres ms => choose_mie_vs_multisphere ms
  | SSpheroid | SCylinder => Use Tmatrix
  | SOtherScatterer => Use DDA
  | SNotScatterer => ErrAutoTheoryFailed
  end.

(** interpret_theory: 'auto' -> default rule; otherwise the named theory *)
Definition interpret_theory (s : scat) (named : option theory) : outcome :=
  match named with Some t => Use t | None => default_theory s end.

(** _scsmfo_setup: centres relative to the centroid, scaled by k, z flipped *)
Definition vsum (cs : list vec) : vec := fold_left vadd cs (zero O, zero O, zero O).
Definition vscale (k : T) (a : vec) : vec := let '(a1,a2,a3) := a in (k * a1, k * a2, k * a3).
Definition centroid (cs : list vec) : vec := vscale (inv O (ofZ O (Z.of_nat (length cs)))) (vsum cs).
Definition flipz (a : vec) : vec := let '(a1,a2,a3) := a in (a1, a2, - a3).
Definition scsmfo_centers (k : T) (cs : list vec) : list vec :=
  map (fun c => flipz (vscale k (vsub c (centroid cs)))) cs.
End Gen.
Arguments msphere T : clear implicits. Arguments scat T : clear implicits. Arguments vec T : clear implicits.
Arguments Build_msphere {T}. Arguments SSphere {T}. Arguments SSpheres {T}. Arguments SSpheroid {T}.
Arguments SCylinder {T}. Arguments SOtherScatterer {T}. Arguments SNotScatterer {T}.

(** C10 - proofs about the model of Model.v (R instance = object of the theorems). *)
From Coq Require Import ZArith List Bool Reals QArith Qreals Lra Lia Nsatz.
From HV Require Import Common.Generic C10.Model.
Import ListNotations.
Local Open Scope R_scope.

(** ---------- floor, float modulo ---------- *)
Definition flR (x : R) : Z := Int_part x.
Lemma flR_spec x : IZR (flR x) <= x < IZR (flR x) + 1.
Proof. unfold flR. destruct (base_Int_part x). split; lra. Qed.

Definition fmodR (x m : R) : R := fmod RO flR x m.
Lemma fmodR_unfold x m : fmodR x m = x - m * IZR (Int_part (x * / m)).
Proof. reflexivity. Qed.
Lemma fmodR_range x m : 0 < m -> 0 <= fmodR x m < m.
Proof.
  intros Hm. rewrite fmodR_unfold. pose proof (flR_spec (x * / m)) as [H1 H2]. unfold flR in *.
  set (k := IZR (Int_part (x * / m))) in *. set (q := x * / m) in *.
  assert (Hx : x = q * m) by (unfold q; field; lra). rewrite Hx. split; nra.
Qed.

Definition degR (x : R) : R := deg RO PI x.
Definition rad (d : R) : R := d * PI / 180.
Lemma degR_unfold x : degR x = x * 180 * / PI. Proof. reflexivity. Qed.
Lemma rad_deg x : rad (degR x) = x.
Proof. rewrite degR_unfold. unfold rad. field. apply PI_neq0. Qed.
Lemma degR_mono x y : x <= y -> degR x <= degR y.
Proof. intros H. rewrite !degR_unfold. pose proof PI_RGT_0.
  assert (0 < / PI) by (apply Rinv_0_lt_compat; lra). nra. Qed.
Lemma degR_0 : degR 0 = 0. Proof. rewrite degR_unfold. ring. Qed.
Lemma degR_PI : degR PI = 180. Proof. rewrite degR_unfold. field. apply PI_neq0. Qed.
Lemma degR_2PI : degR (2 * PI) = 360. Proof. rewrite degR_unfold. field. apply PI_neq0. Qed.

Lemma rad_fmod y : exists k : Z, rad (fmodR y 360) = rad y + 2 * IZR k * PI.
Proof. exists (- Int_part (y * / 360))%Z. rewrite fmodR_unfold, opp_IZR. unfold rad. field. Qed.

(** ---------- 2 pi periodicity with an integer number of turns ---------- *)
Lemma cos_Zperiod x k : cos (x + 2 * IZR k * PI) = cos x.
Proof.
  destruct (Z_le_gt_dec 0 k) as [H|H].
  - rewrite <- (Z2Nat.id k H), <- INR_IZR_INZ. apply cos_period.
  - assert (Hk : IZR k = - INR (Z.to_nat (- k))).
    { rewrite INR_IZR_INZ, Z2Nat.id by lia. rewrite opp_IZR. ring. }
    rewrite Hk. rewrite <- (cos_period (x + 2 * - INR (Z.to_nat (- k)) * PI) (Z.to_nat (- k))).
    f_equal. ring.
Qed.
Lemma sin_Zperiod x k : sin (x + 2 * IZR k * PI) = sin x.
Proof.
  destruct (Z_le_gt_dec 0 k) as [H|H].
  - rewrite <- (Z2Nat.id k H), <- INR_IZR_INZ. apply sin_period.
  - assert (Hk : IZR k = - INR (Z.to_nat (- k))).
    { rewrite INR_IZR_INZ, Z2Nat.id by lia. rewrite opp_IZR. ring. }
    rewrite Hk. rewrite <- (sin_period (x + 2 * - INR (Z.to_nat (- k)) * PI) (Z.to_nat (- k))).
    f_equal. ring.
Qed.

(** ---------- Euler-angle normalisation ---------- *)
Lemma in_rng_true lo hi x : in_rng RO lo hi x = true <-> lo <= x <= hi.
Proof. unfold in_rng. cbn [leb RO]. rewrite andb_true_iff, !Rleb_true. tauto. Qed.
Lemma in_rng_false_lo lo hi x : x < lo -> in_rng RO lo hi x = false.
Proof. intros H. unfold in_rng. cbn [leb RO]. apply andb_false_iff. left. apply Rleb_false. exact H. Qed.
Lemma in_rng_false_hi lo hi x : hi < x -> in_rng RO lo hi x = false.
Proof. intros H. unfold in_rng. cbn [leb RO]. apply andb_false_iff. right. apply Rleb_false. exact H. Qed.

(** axis direction denoted by Euler angles (alpha about z, beta from z), radians *)
Definition axis (a b : R) : R * R * R := (sin b * cos a, sin b * sin a, cos b).

Lemma c180_R : c180 RO = 180. Proof. reflexivity. Qed.
Lemma c360_R : c360 RO = 360. Proof. reflexivity. Qed.

Lemma norm_euler_spec A B :
  let ab := norm_euler RO flR A B in
  0 <= fst ab <= 360 /\ 0 <= snd ab <= 180 /\ axis (rad (fst ab)) (rad (snd ab)) = axis (rad A) (rad B).
Proof.
  unfold norm_euler. rewrite c180_R, c360_R. cbn [ltb add sub RO].
  fold (fmodR B 360). fold (fmodR A 360). fold (fmodR (A + 180) 360).
  pose proof (fmodR_range B 360 ltac:(lra)) as HB.
  pose proof (fmodR_range A 360 ltac:(lra)) as HA.
  pose proof (fmodR_range (A + 180) 360 ltac:(lra)) as HA'.
  destruct (rad_fmod B) as [kb Hkb]. destruct (rad_fmod A) as [ka Hka].
  destruct (rad_fmod (A + 180)) as [ka' Hka'].
  destruct (Rltb 180 (fmodR B 360)) eqn:E; cbn [fst snd].
  - apply Rltb_true in E. split; [lra|]. split; [lra|].
    assert (Hb : rad (360 - fmodR B 360) = - rad B + 2 * IZR (1 - kb) * PI).
    { rewrite minus_IZR. unfold rad in *. lra. }
    assert (Ha : rad (fmodR (A + 180) 360) = (rad A + PI) + 2 * IZR ka' * PI).
    { rewrite Hka'. unfold rad. field. }
    unfold axis. rewrite Hb, Ha, !cos_Zperiod, !sin_Zperiod.
    rewrite cos_neg, sin_neg, neg_cos, neg_sin.
    apply f_equal2; [apply f_equal2|]; ring.
  - apply Rltb_false in E. split; [lra|]. split; [lra|].
    unfold axis. rewrite Hkb, Hka, !cos_Zperiod, !sin_Zperiod. reflexivity.
Qed.

Lemma parse_args_in_range_lemma a b :
  let ab := norm_euler RO flR (degR a) (degR b) in
  0 <= fst ab <= 360 /\ 0 <= snd ab <= 180 /\ axis (rad (fst ab)) (rad (snd ab)) = axis a b.
Proof. pose proof (norm_euler_spec (degR a) (degR b)) as H. rewrite !rad_deg in H. exact H. Qed.

(** the code before the repair: a negative (or > pi) beta fails the Fortran guard *)
Lemma current_beta_negative_fails b : b < 0 -> in_rng RO 0 180 (degR b) = false.
Proof. intros H. apply in_rng_false_lo. rewrite degR_unfold. pose proof PI_RGT_0.
  assert (0 < / PI) by (apply Rinv_0_lt_compat; lra). nra. Qed.
Lemma current_beta_large_fails b : PI < b -> in_rng RO 0 180 (degR b) = false.
Proof. intros H. apply in_rng_false_hi. rewrite <- degR_PI. rewrite !degR_unfold. pose proof PI_RGT_0.
  assert (0 < / PI) by (apply Rinv_0_lt_compat; lra). nra. Qed.

(** ---------- detector angles (core.math.transform_cartesian_to_spherical) ---------- *)
Definition atan2 (y x : R) : R :=
  if Rlt_dec 0 x then atan (y / x)
  else if Rlt_dec x 0 then (if Rle_dec 0 y then atan (y / x) + PI else atan (y / x) - PI)
  else if Rlt_dec 0 y then PI / 2 else if Rlt_dec y 0 then - PI / 2 else 0.

Lemma atan_nonneg t : 0 <= t -> 0 <= atan t.
Proof. intros [H|H]; [left; rewrite <- atan_0; apply atan_increasing; exact H | subst; rewrite atan_0; lra]. Qed.
Lemma atan_nonpos t : t <= 0 -> atan t <= 0.
Proof. intros [H|H]; [left; rewrite <- atan_0; apply atan_increasing; exact H | subst; rewrite atan_0; lra]. Qed.

Lemma atan2_nonneg_range y x : 0 <= y -> 0 <= atan2 y x <= PI.
Proof.
  intros Hy. unfold atan2. pose proof PI_RGT_0 as HP.
  destruct (Rlt_dec 0 x) as [Hx|Hx].
  - pose proof (atan_bound (y / x)). assert (0 <= y / x).
    { unfold Rdiv. apply Rmult_le_pos; [exact Hy|left; apply Rinv_0_lt_compat; exact Hx]. }
    pose proof (atan_nonneg _ H0). lra.
  - destruct (Rlt_dec x 0) as [Hx'|Hx'].
    + destruct (Rle_dec 0 y); [|lra]. pose proof (atan_bound (y / x)).
      assert (y / x <= 0).
      { unfold Rdiv. assert (/ x < 0) by (apply Rinv_lt_0_compat; exact Hx'). nra. }
      pose proof (atan_nonpos _ H0). lra.
    + destruct (Rlt_dec 0 y); [lra|]. destruct (Rlt_dec y 0); lra.
Qed.

Definition cart2sph (p : R * R * R) : R * R * R :=
  let '(x, y, z) := p in
  (sqrt (x * x + y * y + z * z), atan2 (sqrt (x * x + y * y)) z, fmodR (atan2 y x) (2 * PI)).

Lemma detector_theta_in_range x y z : in_rng RO 0 180 (degR (atan2 (sqrt (x * x + y * y)) z)) = true.
Proof.
  apply in_rng_true. pose proof (atan2_nonneg_range (sqrt (x * x + y * y)) z (sqrt_pos _)) as [H1 H2].
  split; [rewrite <- degR_0|rewrite <- degR_PI]; apply degR_mono; assumption.
Qed.
Lemma detector_phi_in_range y x :
  in_rng RO 0 360 (degR (fmodR (atan2 y x) (2 * PI))) = true /\
  in_rng RO 0 360 (fmodR (degR (fmodR (atan2 y x) (2 * PI))) 360) = true.
Proof.
  pose proof PI_RGT_0. pose proof (fmodR_range (atan2 y x) (2 * PI) ltac:(lra)) as [H1 H2].
  split; apply in_rng_true.
  - split; [rewrite <- degR_0|rewrite <- degR_2PI]; apply degR_mono; lra.
  - pose proof (fmodR_range (degR (fmodR (atan2 y x) (2 * PI))) 360 ltac:(lra)). lra.
Qed.

(** end to end: any scatterer, any real Euler angles, any detector points given in Cartesian
    coordinates: the argument tuple handed to the Fortran code passes its angular guard *)
Lemma parsed_args_pass_guard_lemma cbrt s nre nim pts k nmed :
  args_guard RO (parse_args RO PI flR cbrt s nre nim (map cart2sph pts) k nmed) = true.
Proof.
  unfold parse_args, parse_args_gen.
  destruct (dims RO s) as [[[rxy rz] iscyl] [[r0 r1] r2]].
  pose proof (norm_euler_spec (deg RO PI r2) (deg RO PI r1)) as (Ha & Hb & _).
  unfold args_guard. cbn [a_alpha a_beta a_thet0 a_phi0 a_thet a_phi].
  set (al := fst (norm_euler RO flR (deg RO PI r2) (deg RO PI r1))) in *.
  set (be := snd (norm_euler RO flR (deg RO PI r2) (deg RO PI r1))) in *.
  induction pts as [|[[x y] z] t IH]; [reflexivity|].
  cbn [map combine forallb cart2sph fst snd]. rewrite IH, andb_true_r.
  unfold angle_guard. rewrite !andb_true_iff. repeat split.
  - apply in_rng_true. exact Ha.
  - apply in_rng_true. exact Hb.
  - apply in_rng_true. cbn. lra.
  - apply detector_theta_in_range.
  - apply in_rng_true. cbn. lra.
  - apply (proj2 (detector_phi_in_range y x)).
Qed.

(** ---------- structure of the argument tuple ---------- *)
Section Structure.
Context {T : Type} (O : Ops T).
Definition set_spin (s : scat T) (r0' : T) : scat T :=
  match s with
  | Sphere r (r0, r1, r2) => Sphere r (r0', r1, r2)
  | Spheroid a b (r0, r1, r2) => Spheroid a b (r0', r1, r2)
  | Cylinder d h (r0, r1, r2) => Cylinder d h (r0', r1, r2)
  end.
Lemma spin_independent_lemma pi fl cbrt nrm s r0' nre nim pos k nmed :
  parse_args_gen O pi fl cbrt nrm (set_spin s r0') nre nim pos k nmed =
  parse_args_gen O pi fl cbrt nrm s nre nim pos k nmed.
Proof. destruct s as [r [[r0 r1] r2]|a b [[r0 r1] r2]|d h [[r0 r1] r2]]; reflexivity. Qed.
Lemma equal_axes_args_lemma pi fl cbrt nrm a r0 rot nre nim pos k nmed :
  parse_args_gen O pi fl cbrt nrm (Spheroid a a (r0, c0 O, c0 O)) nre nim pos k nmed =
  parse_args_gen O pi fl cbrt nrm (Sphere a rot) nre nim pos k nmed.
Proof. reflexivity. Qed.
End Structure.

Lemma cube_inj y r : y * y * y = r * r * r -> y = r.
Proof.
  intros H. assert (E : (y - r) * (y * y + y * r + r * r) = 0) by (ring_simplify; lra).
  apply Rmult_integral in E. destruct E as [E|E]; [lra|].
  assert (E2 : (y + r / 2) * (y + r / 2) + 3 / 4 * (r * r) = 0) by lra.
  assert (0 <= (y + r / 2) * (y + r / 2)) by nra. assert (0 <= r * r) by nra.
  assert (r * r = 0) by lra. assert (r = 0) by nra. subst r.
  assert (y * y = 0) by nra. nra.
Qed.
(** with a genuine cube root, the "equal-volume radius" of a sphere is its radius *)
Lemma sphere_axi_lemma (cbrt : R -> R) r rot nre nim pos k nmed :
  cbrt (r * (r * r)) * cbrt (r * (r * r)) * cbrt (r * (r * r)) = r * (r * r) ->
  a_axi (parse_args RO PI flR cbrt (Sphere r rot) nre nim pos k nmed) = r.
Proof. intros H. cbn. apply cube_inj. cbn in H. rewrite H. ring. Qed.

(** ---------- packing ---------- *)
Lemma nth_map_seq {A} (f : nat -> A) n i d : (i < n)%nat -> List.nth i (map f (seq 0 n)) d = f i.
Proof.
  intros H. rewrite (nth_indep _ d (f 0%nat)) by (rewrite map_length, seq_length; exact H).
  rewrite map_nth, seq_nth by exact H. reflexivity.
Qed.
Section Packing.
Context {T : Type} (O : Ops T).
Lemma packing_index_lemma pi lam cs (s11 s12 s21 s22 : list (cx T)) i d :
  (i < length s11)%nat ->
  List.nth i (run_tmat O pi lam cs s11 s12 s21 s22) d =
  to_holo O (fst (List.nth i cs (c1 O, c0 O))) (snd (List.nth i cs (c1 O, c0 O)))
          (mscale O (fac O pi lam) (cnth O s11 i, cnth O s12 i, cnth O s21 i, cnth O s22 i)).
Proof. intros H. unfold run_tmat. rewrite nth_map_seq by exact H. reflexivity. Qed.
Lemma packing_index_current_lemma pi lam (s11 s12 s21 s22 : list (cx T)) i d :
  (i < length s11)%nat ->
  List.nth i (run_tmat_current O pi lam s11 s12 s21 s22) d =
  mtranspose (mscale O (fac O pi lam) (cnth O s11 i, cnth O s12 i, cnth O s21 i, cnth O s22 i)).
Proof. intros H. unfold run_tmat_current. rewrite nth_map_seq by exact H. reflexivity. Qed.
Lemma run_tmat_length pi lam cs (s11 s12 s21 s22 : list (cx T)) :
  length (run_tmat O pi lam cs s11 s12 s21 s22) = length s11.
Proof. unfold run_tmat. rewrite map_length, seq_length. reflexivity. Qed.
End Packing.

(** ---------- convention and field assembly ---------- *)
Ltac cx_destruct :=
  repeat match goal with z : cx R |- _ => destruct z as [? ?] end;
  repeat match goal with m : m22 R |- _ => destruct m as [[[[? ?] [? ?]] [? ?]] [? ?]] end.
Ltac cx_unfold :=
  unfold tmat_field, tmat_field_current, theory_field, fieldstocart, calc_scat_field, incfield, postmul,
    to_holo, sphere_lab, sphere_holo, mtranspose, mscale, cadd, csub, cneg, cmul, cscale, c0, c1;
  cbn [fst snd zero one add mul sub opp RO].
Ltac pair_split := repeat match goal with |- (_, _) = (_, _) => apply f_equal2 end.

Lemma sphere_conversion_lemma (s2 s1 : cx R) c s :
  c * c + s * s = 1 -> to_holo RO c s (sphere_lab RO s2 s1 c s) = sphere_holo RO s2 s1.
Proof. intros H. cx_destruct. cx_unfold. pair_split; nsatz. Qed.

(** for x-polarised light the repaired assembly is E_theta = pref L11, E_phi = pref L21 *)
Lemma tmat_field_first_column_lemma (pref : cx R) (l : m22 R) c s ct st :
  c * c + s * s = 1 ->
  tmat_field RO pref (to_holo RO c s l) c s ct st =
  let '(l11, l12, l21, l22) := l in fieldstocart RO (cmul RO pref l11, cmul RO pref l21) ct st c s.
Proof. intros H. cx_destruct. cx_unfold. pair_split; nsatz. Qed.

Lemma tmat_sphere_field_eq_mie_lemma (pref s2 s1 : cx R) c s ct st :
  c * c + s * s = 1 ->
  tmat_field RO pref (to_holo RO c s (sphere_lab RO s2 s1 c s)) c s ct st =
  theory_field RO pref (sphere_holo RO s2 s1) c s ct st 1 0.
Proof. intros H. rewrite sphere_conversion_lemma by exact H. reflexivity. Qed.

(** rotating detector azimuth and polarisation together rotates the field (diagonal S) *)
Definition rotz (cd sd : R) (v : cx R * cx R * cx R) : cx R * cx R * cx R :=
  let '(vx, vy, vz) := v in
  (csub RO (cscale RO cd vx) (cscale RO sd vy), cadd RO (cscale RO sd vx) (cscale RO cd vy), vz).
Lemma far_assembly_rot_cov_lemma (pref s2 s1 : cx R) c s cd sd ct st ex ey :
  cd * cd + sd * sd = 1 ->
  theory_field RO pref (sphere_holo RO s2 s1) (c * cd - s * sd) (s * cd + c * sd) ct st
               (cd * ex - sd * ey) (sd * ex + cd * ey) =
  rotz cd sd (theory_field RO pref (sphere_holo RO s2 s1) c s ct st ex ey).
Proof. intros H. cx_destruct. unfold rotz. cx_unfold. pair_split; nsatz. Qed.

(** the code before the repair: transposed packing + postfactor give E_phi = - pref L12 *)
Lemma current_field_wrong_entry_lemma (pref : cx R) (l : m22 R) c s ct st :
  c * c + s * s = 1 ->
  tmat_field_current RO pref (mtranspose l) c s ct st =
  let '(l11, l12, l21, l22) := l in
  fieldstocart RO (cmul RO pref l11, cneg RO (cmul RO pref l12)) ct st c s.
Proof. intros H. cx_destruct. cx_unfold. pair_split; nsatz. Qed.
(** ... which for a sphere coincides with Mie when S1 = S2 (forward direction) or sin(phi) = 0 *)
Lemma current_sphere_agrees_when_lemma (pref s2 s1 : cx R) c s ct st :
  c * c + s * s = 1 -> (s1 = s2 \/ s = 0) ->
  tmat_field_current RO pref (mtranspose (sphere_lab RO s2 s1 c s)) c s ct st =
  theory_field RO pref (sphere_holo RO s2 s1) c s ct st 1 0.
Proof.
  intros H [E|E]; subst; cx_destruct; cx_unfold; pair_split; nsatz.
Qed.

(** ---------- size guard ---------- *)
Lemma size_guard_iff ixxx : size_guard ixxx 5 = true <-> (ixxx <= 120)%Z.
Proof. unfold size_guard, inm1, NPN1, NPNG1. rewrite andb_true_iff, Z.ltb_lt, Z.leb_le. lia. Qed.

(** ---------- Q instance = R instance for the guard ---------- *)
Lemma in_rng_Q_R lo hi x : in_rng QO lo hi x = in_rng RO (Q2R lo) (Q2R hi) (Q2R x).
Proof. unfold in_rng. q2r. Qed.
Lemma angle_guard_Q_R a b t t1 p p1 :
  angle_guard QO a b t t1 p p1 = angle_guard RO (Q2R a) (Q2R b) (Q2R t) (Q2R t1) (Q2R p) (Q2R p1).
Proof.
  unfold angle_guard. rewrite !in_rng_Q_R. unfold c0, c180, c360. cbn [zero ofZ QO RO].
  rewrite !Q2R_inject_Z, Q2R_0. reflexivity.
Qed.

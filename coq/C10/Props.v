(** C10 property theorems: statements only; proofs are in Lemmas.v.
    R instance = object of the theorems.  What is NOT here (explored only, see harness/props/c10.py):
    numerical agreement of the T-matrix solver with Lorenz-Mie, symmetry of its output for
    spheroids/cylinders, and the interpreter surviving the call - the solver's output enters the
    model as an argument. *)
From Coq Require Import ZArith List Bool Reals QArith Qround Lra.
From HV Require Import Common.Generic C10.Model C10.Lemmas C10.Findings.
Import ListNotations.
Local Open Scope R_scope.

(* theta, phi produced by the Cartesian -> spherical conversion always pass the Fortran guard *)
Theorem detector_angles_in_range : forall x y z,
  in_rng RO 0 180 (degR (atan2 (sqrt (x * x + y * y)) z)) = true /\
  in_rng RO 0 360 (degR (fmodR (atan2 y x) (2 * PI))) = true /\
  in_rng RO 0 360 (fmodR (degR (fmodR (atan2 y x) (2 * PI))) 360) = true.
Proof. intros. split; [apply detector_theta_in_range|apply detector_phi_in_range]. Qed.
Print Assumptions detector_angles_in_range.

(* repaired normalisation: for ALL real Euler angles (radians) the (alpha, beta) handed to the
   Fortran code pass its guard and denote the same axis direction *)
Theorem parse_args_in_range : forall a b,
  let ab := norm_euler RO flR (degR a) (degR b) in
  0 <= fst ab <= 360 /\ 0 <= snd ab <= 180 /\ axis (rad (fst ab)) (rad (snd ab)) = axis a b.
Proof. exact parse_args_in_range_lemma. Qed.
Print Assumptions parse_args_in_range.

(* end to end: any scatterer, any real rotation, any Cartesian detector points *)
Theorem parsed_args_pass_guard : forall cbrt s nre nim pts k nmed,
  args_guard RO (parse_args RO PI flR cbrt s nre nim (map cart2sph pts) k nmed) = true.
Proof. exact parsed_args_pass_guard_lemma. Qed.
Print Assumptions parsed_args_pass_guard.

(* the code before the repair: every beta < 0 and every beta > pi fails the guard (=> STOP) *)
Theorem current_beta_out_of_range_fails : forall b, (b < 0 \/ PI < b) -> in_rng RO 0 180 (degR b) = false.
Proof. intros b [H|H]; [apply current_beta_negative_fails|apply current_beta_large_fails]; exact H. Qed.
Print Assumptions current_beta_out_of_range_fails.

(* arguments do not depend on rotation[0] (spin about the particle's own axis), repaired or not *)
Theorem spin_independent : forall pi fl cbrt nrm (s : scat R) r0' nre nim pos k nmed,
  parse_args_gen RO pi fl cbrt nrm (set_spin s r0') nre nim pos k nmed =
  parse_args_gen RO pi fl cbrt nrm s nre nim pos k nmed.
Proof. intros. apply spin_independent_lemma. Qed.
Print Assumptions spin_independent.

(* a spheroid (a,a) with zero rotation gives exactly the sphere's argument tuple *)
Theorem equal_axes_args : forall pi fl cbrt nrm (a r0 : R) rot nre nim pos k nmed,
  parse_args_gen RO pi fl cbrt nrm (Spheroid a a (r0, 0, 0)) nre nim pos k nmed =
  parse_args_gen RO pi fl cbrt nrm (Sphere a rot) nre nim pos k nmed.
Proof. intros. apply (equal_axes_args_lemma RO). Qed.
Print Assumptions equal_axes_args.

Theorem sphere_equal_volume_radius : forall (cbrt : R -> R) r rot nre nim pos k nmed,
  cbrt (r * (r * r)) * cbrt (r * (r * r)) * cbrt (r * (r * r)) = r * (r * r) ->
  a_axi (parse_args RO PI flR cbrt (Sphere r rot) nre nim pos k nmed) = r.
Proof. exact sphere_axi_lemma. Qed.
Print Assumptions sphere_equal_volume_radius.

(* result[i] = convention change applied to (-2 pi i / lambda) * (s11[i], s12[i], s21[i], s22[i]) *)
Theorem packing_index : forall pi lam cs (s11 s12 s21 s22 : list (cx R)) i d,
  (i < length s11)%nat ->
  List.nth i (run_tmat RO pi lam cs s11 s12 s21 s22) d =
  to_holo RO (fst (List.nth i cs (1, 0))) (snd (List.nth i cs (1, 0)))
          (mscale RO (fac RO pi lam) (cnth RO s11 i, cnth RO s12 i, cnth RO s21 i, cnth RO s22 i)).
Proof. intros. apply (packing_index_lemma RO). assumption. Qed.
Print Assumptions packing_index.

(* the code before the repair returned every point's matrix transposed *)
Theorem packing_index_current_is_transposed : forall pi lam (s11 s12 s21 s22 : list (cx R)) i d,
  (i < length s11)%nat ->
  List.nth i (run_tmat_current RO pi lam s11 s12 s21 s22) d =
  mtranspose (mscale RO (fac RO pi lam) (cnth RO s11 i, cnth RO s12 i, cnth RO s21 i, cnth RO s22 i)).
Proof. intros. apply (packing_index_current_lemma RO). assumption. Qed.
Print Assumptions packing_index_current_is_transposed.

(* sphere: lab-frame matrix diag(S2,S1).R(phi) converts to the phi-independent diag(S2,S1) ... *)
Theorem sphere_conversion : forall (s2 s1 : cx R) c s,
  c * c + s * s = 1 -> to_holo RO c s (sphere_lab RO s2 s1 c s) = sphere_holo RO s2 s1.
Proof. exact sphere_conversion_lemma. Qed.
Print Assumptions sphere_conversion.

(* ... hence the T-matrix field assembly equals the Lorenz-Mie assembly at EVERY azimuth *)
Theorem tmatrix_sphere_field_eq_mie : forall (pref s2 s1 : cx R) c s ct st,
  c * c + s * s = 1 ->
  tmat_field RO pref (to_holo RO c s (sphere_lab RO s2 s1 c s)) c s ct st =
  theory_field RO pref (sphere_holo RO s2 s1) c s ct st 1 0.
Proof. exact tmat_sphere_field_eq_mie_lemma. Qed.
Print Assumptions tmatrix_sphere_field_eq_mie.

(* any particle: E_theta = pref.L11, E_phi = pref.L21 for x-polarised light *)
Theorem tmatrix_field_is_first_column : forall (pref : cx R) (l : m22 R) c s ct st,
  c * c + s * s = 1 ->
  tmat_field RO pref (to_holo RO c s l) c s ct st =
  let '(l11, l12, l21, l22) := l in fieldstocart RO (cmul RO pref l11, cmul RO pref l21) ct st c s.
Proof. exact tmat_field_first_column_lemma. Qed.
Print Assumptions tmatrix_field_is_first_column.

(* far-field assembly, diagonal S: rotating detector azimuth and polarisation by delta rotates the field *)
Theorem tmatrix_far_assembly_rot_cov : forall (pref s2 s1 : cx R) c s cd sd ct st ex ey,
  cd * cd + sd * sd = 1 ->
  theory_field RO pref (sphere_holo RO s2 s1) (c * cd - s * sd) (s * cd + c * sd) ct st
               (cd * ex - sd * ey) (sd * ex + cd * ey) =
  rotz cd sd (theory_field RO pref (sphere_holo RO s2 s1) c s ct st ex ey).
Proof. exact far_assembly_rot_cov_lemma. Qed.
Print Assumptions tmatrix_far_assembly_rot_cov.

(* the code before the repair used -L12 where L21 belongs; invisible when S1 = S2 or sin(phi) = 0 *)
Theorem current_field_uses_wrong_entry : forall (pref : cx R) (l : m22 R) c s ct st,
  c * c + s * s = 1 ->
  tmat_field_current RO pref (mtranspose l) c s ct st =
  let '(l11, l12, l21, l22) := l in
  fieldstocart RO (cmul RO pref l11, cneg RO (cmul RO pref l12)) ct st c s.
Proof. exact current_field_wrong_entry_lemma. Qed.
Print Assumptions current_field_uses_wrong_entry.
Theorem current_sphere_field_agrees_only_when : forall (pref s2 s1 : cx R) c s ct st,
  c * c + s * s = 1 -> (s1 = s2 \/ s = 0) ->
  tmat_field_current RO pref (mtranspose (sphere_lab RO s2 s1 c s)) c s ct st =
  theory_field RO pref (sphere_holo RO s2 s1) c s ct st 1 0.
Proof. exact current_sphere_agrees_when_lemma. Qed.
Print Assumptions current_sphere_field_agrees_only_when.

(* size guard with ndgs = 5: passes iff INT(x + 4.05 x^(1/3)) <= 120 *)
Theorem size_guard_bound : forall ixxx, size_guard ixxx 5 = true <-> (ixxx <= 120)%Z.
Proof. exact size_guard_iff. Qed.
Print Assumptions size_guard_bound.

(* the executed (Q) guard is the guard the theorems speak about *)
Theorem angle_guard_agrees_on_Q : forall a b t t1 p p1,
  angle_guard QO a b t t1 p p1 = angle_guard RO (Q2R a) (Q2R b) (Q2R t) (Q2R t1) (Q2R p) (Q2R p1).
Proof. exact angle_guard_Q_R. Qed.
Print Assumptions angle_guard_agrees_on_Q.

(* findings (witnesses computed in Findings.v) *)
Theorem current_guard_refuted : exists rot : Q * Q * Q, args_guard QO (args_current rot) = false.
Proof. exact guard_refuted. Qed.
Print Assumptions current_guard_refuted.
Theorem current_sphere_field_is_not_mie :
  exists (s2 s1 : cx Q) (c s : Q), (c * c + s * s == 1)%Q /\
    v3eqb (tmat_field_current QO (1, 0)%Q (mtranspose (sphere_lab QO s2 s1 c s)) c s 1%Q 0%Q)
          (theory_field QO (1, 0)%Q (sphere_holo QO s2 s1) c s 1%Q 0%Q 1%Q 0%Q) = false.
Proof. exact current_sphere_field_refuted. Qed.
Print Assumptions current_sphere_field_is_not_mie.

(* non-vacuity: hypotheses are satisfiable by concrete non-trivial objects *)
Example hyps_satisfiable :
  (exists c s : R, c * c + s * s = 1 /\ s <> 0) /\
  (exists (cbrt : R -> R) (r : R), cbrt (r * (r * r)) * cbrt (r * (r * r)) * cbrt (r * (r * r)) = r * (r * r)) /\
  args_guard QO (args_repaired (0, - (3 # 10), 7)%Q) = true /\
  size_guard 57 5 = true /\ size_guard 146 5 = false.
Proof.
  split; [exists (3 / 5), (4 / 5); split; lra|]. split; [exists (fun _ => 2), 2; lra|].
  split; [vm_compute; reflexivity|]. split; reflexivity.
Qed.

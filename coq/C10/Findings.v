(** C10 - models of the code as it stood, with computed witnesses (historical record of what
    the code did before the repair, or of a known finding). *)
From Coq Require Import ZArith QArith Qround List Bool.
From HV Require Import Common.Generic C10.Model.
Import ListNotations.
Open Scope Q_scope.

Definition piQ : Q := 884279719003555 # 281474976710656.   (* the double nearest to pi *)

(** _parse_args handed rotation[1]*180/pi and rotation[2]*180/pi to the Fortran code as they
    were; AMPL's guard (0<=alpha<=360, 0<=beta<=180) then ends in STOP, i.e. the interpreter exits.
    Witnesses: beta = -0.3 rad, beta = 4.0 rad, alpha = -0.2 rad, alpha = 7 rad. *)
Definition args_current (rot : Q * Q * Q) : args Q :=
  parse_args_gen QO piQ Qfloor (fun x => x) false (Spheroid (2 # 5) (4 # 5) rot) (3 # 2) 0
                 [(10, 1 # 2, 1 # 2)] 12 (133 # 100).
Theorem guard_refuted :
  exists rot : Q * Q * Q, args_guard QO (args_current rot) = false.
Proof. exists (0, - (3 # 10), 0). vm_compute. reflexivity. Qed.
Theorem guard_refuted_more :
  args_guard QO (args_current (0, 4, 0)) = false /\
  args_guard QO (args_current (0, 3 # 10, - (1 # 5))) = false /\
  args_guard QO (args_current (0, 3 # 10, 7)) = false /\
  args_guard QO (args_current (0, 3 # 10, 1 # 5)) = true.
Proof. vm_compute. repeat split; reflexivity. Qed.
(** the repaired parse on the same inputs passes *)
Definition args_repaired (rot : Q * Q * Q) : args Q :=
  parse_args QO piQ Qfloor (fun x => x) (Spheroid (2 # 5) (4 # 5) rot) (3 # 2) 0
             [(10, 1 # 2, 1 # 2)] 12 (133 # 100).
Example repaired_passes :
  args_guard QO (args_repaired (0, - (3 # 10), 0)) = true /\ args_guard QO (args_repaired (0, 4, 0)) = true /\
  args_guard QO (args_repaired (0, 3 # 10, - (1 # 5))) = true /\ args_guard QO (args_repaired (0, 3 # 10, 7)) = true.
Proof. vm_compute. repeat split; reflexivity. Qed.
(** a detector azimuth given as -0.5 rad (spherical detector coordinates) likewise *)
Theorem detector_phi_guard_refuted :
  args_guard QO (parse_args_gen QO piQ Qfloor (fun x => x) false (Sphere (1 # 2) (0, 0, 0)) (3 # 2) 0
                                [(10, 1 # 2, - (1 # 2))] 12 (133 # 100)) = false.
Proof. vm_compute. reflexivity. Qed.

(** raw_fields: the matrix of each point was packed transposed and multiplied by the "postfactor";
    for a sphere (lab-frame matrix diag(S2,S1).R(phi)) the phi-component then carries S2 where the
    Lorenz-Mie field has S1.  Witness: cos = 3/5, sin = 4/5, S2 = 1, S1 = 2, prefactor 1,
    cos(theta) = 1, sin(theta) = 0: x-component 1 (Mie: 41/25). *)
Definition cxeqb (a b : cx Q) : bool := Qeq_bool (fst a) (fst b) && Qeq_bool (snd a) (snd b).
Definition v3eqb (a b : cx Q * cx Q * cx Q) : bool :=
  let '(a1, a2, a3) := a in let '(b1, b2, b3) := b in cxeqb a1 b1 && cxeqb a2 b2 && cxeqb a3 b3.
Theorem current_sphere_field_refuted :
  exists (s2 s1 : cx Q) (c s : Q), c * c + s * s == 1 /\
    v3eqb (tmat_field_current QO (1, 0) (mtranspose (sphere_lab QO s2 s1 c s)) c s 1 0)
          (theory_field QO (1, 0) (sphere_holo QO s2 s1) c s 1 0 1 0) = false.
Proof. exists (1, 0), (2, 0), (3 # 5), (4 # 5). split; vm_compute; reflexivity. Qed.
(** the repaired code on the same witness agrees *)
Example repaired_sphere_field_agrees :
  v3eqb (tmat_field QO (1, 0) (to_holo QO (3 # 5) (4 # 5) (sphere_lab QO (1, 0) (2, 0) (3 # 5) (4 # 5))) (3 # 5) (4 # 5) 1 0)
        (theory_field QO (1, 0) (sphere_holo QO (1, 0) (2, 0)) (3 # 5) (4 # 5) 1 0 1 0) = true.
Proof. vm_compute. reflexivity. Qed.

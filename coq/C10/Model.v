(** C10 - T-matrix theory.  Executable model (no proofs here).
    Anchors: holopy/scattering/theory/tmatrix.py (_parse_args, _run_tmat, raw_fields),
    tmatrix_f/ampld.lp.f (angular range guard of AMPL, size guards of AMP_SCAT_MATRIX),
    mie_f/mieangfuncs.f90 (incfield, calc_scat_field, fieldstocart).
    The model is the REPAIRED code (Euler angles / azimuth normalised before the Fortran call;
    the amplitude matrix converted to HoloPy's scattering-plane convention).  The code as it
    stood is kept by the [normalise = false] / [_current] variants used in Findings.v.
    Oracles (arguments, never axioms): pi, floor, the cube root, cos/sin of the azimuth and of
    the polar angle, the spherical-wave prefactor i/kr e^{ikr}, the Fortran solver's output. *)
From Coq Require Import ZArith List Bool.
From HV Require Import Common.Generic.
Import ListNotations.

Section Gen.
Context {T : Type} (O : Ops T).
Declare Scope t_scope. Delimit Scope t_scope with t.
Local Notation "x + y" := (add O x y) : t_scope. Local Notation "x * y" := (mul O x y) : t_scope.
Local Notation "x - y" := (sub O x y) : t_scope. Local Notation "- x" := (opp O x) : t_scope.
Local Notation "x / y" := (mul O x (inv O y)) : t_scope.
Local Notation "x <? y" := (ltb O x y) : t_scope. Local Notation "x <=? y" := (leb O x y) : t_scope.
Local Open Scope t_scope.

Definition c0 : T := zero O.
Definition c1 : T := one O.
Definition c2 : T := ofZ O 2.
Definition c3 : T := ofZ O 3.
Definition c180 : T := ofZ O 180.
Definition c360 : T := ofZ O 360.

(** ---------- argument parsing (tmatrix.py: _parse_args) ---------- *)
Section Parse.
Variable pi : T.            (* np.pi *)
Variable fl : T -> Z.       (* floor, as used by the float operator % *)
Variable cbrt : T -> T.     (* x ** (1/3.) *)

Definition deg (x : T) : T := x * c180 / pi.                         (* x * 180 / np.pi *)
Definition fmod (x m : T) : T := x - m * ofZ O (fl (x / m)).         (* x % m, m > 0 *)

(** the repair: any real Euler angles -> 0<=alpha<=360, 0<=beta<=180, same axis direction *)
Definition norm_euler (a b : T) : T * T :=
  let b1 := fmod b c360 in
  if c180 <? b1 then (fmod (a + c180) c360, c360 - b1) else (fmod a c360, b1).

Definition rot3 : Type := (T * T * T)%type.
Inductive scat :=
| Sphere (r : T) (rot : rot3)
| Spheroid (rxy rz : T) (rot : rot3)
| Cylinder (d h : T) (rot : rot3).

Record args := mkArgs {
  a_axi : T; a_rat : T; a_lam : T; a_mrr : T; a_mri : T; a_eps : T; a_np : Z; a_ndgs : Z;
  a_alpha : T; a_beta : T; a_thet0 : T; a_thet : list T; a_phi0 : T; a_phi : list T; a_nang : Z }.

(** (rxy, rz, iscyl, rotation actually used).  A Sphere's rotation is reset to (0,0,0). *)
Definition dims (s : scat) : T * T * bool * rot3 :=
  match s with
  | Sphere r _ => (r, r, false, (c0, c0, c0))
  | Spheroid rxy rz rot => (rxy, rz, false, rot)
  | Cylinder d h rot => (d / c2, h / c2, true, rot)
  end.

(** pos: list of (kr, theta, phi) (radians).  [normalise = false] is the code before the repair. *)
Definition parse_args_gen (normalise : bool) (s : scat) (nre nim : T) (pos : list (T * T * T))
           (k nmed : T) : args :=
  let '(rxy, rz, iscyl, rot) := dims s in
  let '(r0, r1, r2) := rot in
  let cr := cbrt (rz * (rxy * rxy)) in
  let ab := if normalise then norm_euler (deg r2) (deg r1) else (deg r2, deg r1) in
  mkArgs (if iscyl then (c3 / c2) * cr else cr)            (* axi = (3/2)**iscyl * (rz*rxy**2)**(1/3.) *)
         c1                                                 (* rat *)
         (c2 * pi / k)                                      (* lam = 2*pi/medium_wavevec *)
         (nre / nmed) (nim / nmed)                          (* mrr, mri *)
         (rxy / rz)                                         (* eps *)
         (if iscyl then (-2)%Z else (-1)%Z)                 (* NP = -1 - int(iscyl) *)
         5%Z                                                (* ndgs *)
         (fst ab) (snd ab)                                  (* alpha <- rotation[2], beta <- rotation[1] *)
         c0
         (map (fun p => deg (snd (fst p))) pos)             (* thet *)
         c0
         (map (fun p => if normalise then fmod (deg (snd p)) c360 else deg (snd p)) pos)   (* phi *)
         (Z.of_nat (length pos)).
Definition parse_args := parse_args_gen true.
End Parse.

(** ---------- the Fortran guards (ampld.lp.f) ---------- *)
Definition in_rng (lo hi x : T) : bool := (lo <=? x) && (x <=? hi).
(** AMPL: IF (ALPHA.LT.0.OR.ALPHA.GT.360.OR.BETA.LT.0.OR.BETA.GT.180.OR.TL..TL1 in 0..180,
    PL, PL1 in 0..360) STOP -- [true] means the call goes on *)
Definition angle_guard (alpha beta tl tl1 pl pl1 : T) : bool :=
  in_rng c0 c360 alpha && in_rng c0 c180 beta && in_rng c0 c180 tl && in_rng c0 c180 tl1 &&
  in_rng c0 c360 pl && in_rng c0 c360 pl1.
Definition args_guard (a : args) : bool :=
  forallb (fun tp => angle_guard (a_alpha a) (a_beta a) (a_thet0 a) (fst tp) (a_phi0 a) (snd tp))
          (combine (a_thet a) (a_phi a)).

(** ---------- amplitude matrix: packing and convention (tmatrix.py: _run_tmat) ---------- *)
Definition cx : Type := (T * T)%type.                      (* re, im *)
Definition cadd (a b : cx) : cx := (fst a + fst b, snd a + snd b).
Definition csub (a b : cx) : cx := (fst a - fst b, snd a - snd b).
Definition cneg (a : cx) : cx := (- fst a, - snd a).
Definition cmul (a b : cx) : cx := (fst a * fst b - snd a * snd b, fst a * snd b + snd a * fst b).
Definition cscale (r : T) (a : cx) : cx := (r * fst a, r * snd a).
Definition m22 : Type := (cx * cx * cx * cx)%type.         (* m11, m12, m21, m22 *)
Definition mscale (f : cx) (m : m22) : m22 :=
  let '(m11, m12, m21, m22) := m in (cmul f m11, cmul f m12, cmul f m21, cmul f m22).

(** -2j*np.pi/med_wavelen *)
Definition fac (pi lam : T) : cx := (c0, (- (c2 * pi)) / lam).

(** S = diag(1,-1) . L . R(phi)^T . diag(1,-1),  R(phi) = [[c, s], [-s, c]] *)
Definition to_holo (c s : T) (l : m22) : m22 :=
  let '(l11, l12, l21, l22) := l in
  (cadd (cscale c l11) (cscale s l12), csub (cscale s l11) (cscale c l12),
   csub (cneg (cscale c l21)) (cscale s l22), csub (cscale c l22) (cscale s l21)).

Definition cnth (l : list cx) (i : nat) : cx := nth i l (c0, c0).
(** result[i] for i < nang; s11..s22 are the four arrays returned by ampld, cs the (cos, sin) of phi[i] *)
Definition run_tmat (pi lam : T) (cs : list (T * T)) (s11 s12 s21 s22 : list cx) : list m22 :=
  map (fun i => let f := fac pi lam in
                to_holo (fst (nth i cs (c1, c0))) (snd (nth i cs (c1, c0)))
                        (mscale f (cnth s11 i, cnth s12 i, cnth s21 i, cnth s22 i)))
      (seq 0 (length s11)).
(** the code before the repair: np.array([[s11, s12], [s21, s22]]).transpose(), i.e.
    out[i][a][b] = in[b][a][i] -- the matrix of every point comes out transposed *)
Definition run_tmat_current (pi lam : T) (s11 s12 s21 s22 : list cx) : list m22 :=
  map (fun i => mscale (fac pi lam) (cnth s11 i, cnth s21 i, cnth s12 i, cnth s22 i))
      (seq 0 (length s11)).

(** ---------- field assembly (mieangfuncs.f90 + raw_fields) ---------- *)
Definition incfield (ex ey c s : T) : T * T := (ex * c + ey * s, ex * s - ey * c).
(** escat_sph = prefactor * matmul(ascatm, einc_sph) * (1, -1) *)
Definition calc_scat_field (pref : cx) (m : m22) (c s ex ey : T) : cx * cx :=
  let '(p, q) := incfield ex ey c s in
  let '(m11, m12, m21, m22) := m in
  (cmul pref (cadd (cscale p m11) (cscale q m12)),
   cneg (cmul pref (cadd (cscale p m21) (cscale q m22)))).
Definition fieldstocart (e : cx * cx) (ct st cp sp : T) : cx * cx * cx :=
  let '(et, ep) := e in
  (csub (cscale (ct * cp) et) (cscale sp ep), cadd (cscale (ct * sp) et) (cscale cp ep),
   cneg (cscale st et)).
(** ScatteringTheory.raw_fields loop body (any theory whose matrices are in HoloPy's convention) *)
Definition theory_field (pref : cx) (m : m22) (c s ct st ex ey : T) : cx * cx * cx :=
  fieldstocart (calc_scat_field pref m c s ex ey) ct st c s.
(** Tmatrix.raw_fields loop body (polarisation fixed to (1,0)) *)
Definition tmat_field (pref : cx) (m : m22) (c s ct st : T) : cx * cx * cx :=
  theory_field pref m c s ct st c1 c0.
(** the code before the repair: np.dot(scat_matr[i], postfactor), postfactor = [[c, s], [-s, c]] *)
Definition postmul (m : m22) (c s : T) : m22 :=
  let '(m11, m12, m21, m22) := m in
  (csub (cscale c m11) (cscale s m12), cadd (cscale s m11) (cscale c m12),
   csub (cscale c m21) (cscale s m22), cadd (cscale s m21) (cscale c m22)).
Definition tmat_field_current (pref : cx) (m : m22) (c s ct st : T) : cx * cx * cx :=
  theory_field pref (postmul m c s) c s ct st c1 c0.

(** what ampld returns for a sphere (times fac): L = diag(S2, S1) . R(phi) *)
Definition sphere_lab (s2 s1 : cx) (c s : T) : m22 :=
  (cscale c s2, cscale s s2, cneg (cscale s s1), cscale c s1).
Definition sphere_holo (s2 s1 : cx) : m22 := (s2, (c0, c0), (c0, c0), s1).
Definition mtranspose (m : m22) : m22 := let '(m11, m12, m21, m22) := m in (m11, m21, m12, m22).
End Gen.

(** ---------- size guards of AMP_SCAT_MATRIX (integers) ---------- *)
Definition NPN1 : Z := 200.
Definition NPNG1 : Z := 600.
(** ixxx = INT(XEV + 4.05*XEV**0.333333) is supplied (real power: oracle).
    INM1 = MAX0(4, IXXX); IF (INM1.GE.NPN1) STOP; first pass of the loop: NGAUSS = INM1*NDGS,
    IF (NGAUSS.GT.NPNG1) STOP.  [true]: neither of the two fires before any computation. *)
Definition inm1 (ixxx : Z) : Z := Z.max 4 ixxx.
Definition size_guard (ixxx ndgs : Z) : bool :=
  (inm1 ixxx <? NPN1)%Z && (inm1 ixxx * ndgs <=? NPNG1)%Z.

Arguments scat T : clear implicits. Arguments args T : clear implicits.
Arguments cx T : clear implicits. Arguments m22 T : clear implicits.
Arguments Sphere {T}. Arguments Spheroid {T}. Arguments Cylinder {T}.

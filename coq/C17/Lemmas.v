(** C17 - proofs.  Part 1: index shuffles (no carrier), part 2: coordinates, part 3: transfer
    function over R, part 4: fft / ifft / propagate over the oracle DFT pair, part 5: link of the
    executed (Q / closed-real) instances to the R instance the theorems speak about. *)
From Coq Require Import ZArith List Bool Arith Lia Reals Lra QArith Qreals.
From HV Require Import Common.Generic C17.Model C17.Findings.
Import ListNotations.

(* ------------------------------------------------------------------------------------------ *)
(** * 1. rotations / fftshift / ifftshift   (rotl_length, rotl_rotl, rotl_nth, fftshift1_length and the
    double-shift lemmas live in Findings.v, which this file imports) *)
Section ShiftLemmas.
Context {A : Type}.
Implicit Types l : list A.

Lemma ifftshift1_fftshift1 l : ifftshift1 (fftshift1 l) = l.
Proof. unfold ifftshift1, fftshift1. rewrite rotl_length. apply rotl_rotl.
  pose proof (half_le (length l)). lia. Qed.

Lemma fftshift1_ifftshift1 l : fftshift1 (ifftshift1 l) = l.
Proof. unfold ifftshift1, fftshift1. rewrite rotl_length. apply rotl_rotl.
  pose proof (half_le (length l)). lia. Qed.

Lemma ifftshift1_length l : length (ifftshift1 l) = length l.
Proof. apply rotl_length. Qed.

(** numpy's documented behaviour: fftshift moves input element i to (i + n/2) mod n *)
Lemma fftshift1_moves l i d : (i < length l)%nat ->
  nth (fftshift_idx (length l) i) (fftshift1 l) d = nth i l d.
Proof.
  intros Hi. unfold fftshift_idx, fftshift1. set (n := length l) in *.
  pose proof (half_le n) as Hh.
  assert (Hn : (n <> 0)%nat) by lia.
  rewrite rotl_nth; fold n; [|lia|apply Nat.mod_upper_bound; exact Hn].
  f_equal. rewrite Nat.add_mod_idemp_l by exact Hn.
  replace (i + n / 2 + (n - n / 2))%nat with (i + 1 * n)%nat by lia.
  rewrite Nat.mod_add by exact Hn. apply Nat.mod_small. exact Hi.
Qed.
Lemma ifftshift1_moves l i d : (i < length l)%nat ->
  nth (ifftshift_idx (length l) i) (ifftshift1 l) d = nth i l d.
Proof.
  intros Hi. unfold ifftshift_idx, ifftshift1. set (n := length l) in *.
  pose proof (half_le n) as Hh.
  assert (Hn : (n <> 0)%nat) by lia.
  rewrite rotl_nth; fold n; [|lia|apply Nat.mod_upper_bound; exact Hn].
  f_equal. rewrite Nat.add_mod_idemp_l by exact Hn.
  replace (i + (n - n / 2) + n / 2)%nat with (i + 1 * n)%nat by lia.
  rewrite Nat.mod_add by exact Hn. apply Nat.mod_small. exact Hi.
Qed.

Lemma rotl_Forall (P : A -> Prop) k l : Forall P l -> Forall P (rotl k l).
Proof.
  intros H. rewrite <- (firstn_skipn k l) in H. apply Forall_app in H. destruct H as [H1 H2].
  unfold rotl. apply Forall_app. split; assumption.
Qed.
End ShiftLemmas.

Lemma rotl_map {A B} (f : A -> B) k (l : list A) : rotl k (map f l) = map f (rotl k l).
Proof. unfold rotl. rewrite skipn_map, firstn_map, map_app. reflexivity. Qed.
Lemma fftshift1_map {A B} (f : A -> B) (l : list A) : fftshift1 (map f l) = map f (fftshift1 l).
Proof. unfold fftshift1. rewrite map_length. apply rotl_map. Qed.
Lemma ifftshift1_map {A B} (f : A -> B) (l : list A) : ifftshift1 (map f l) = map f (ifftshift1 l).
Proof. unfold ifftshift1. rewrite map_length. apply rotl_map. Qed.

Lemma map_id_ext {A} (f : A -> A) (l : list A) : (forall x, f x = x) -> map f l = l.
Proof. intros H. induction l as [|x t IH]; simpl; [reflexivity|]. rewrite H, IH. reflexivity. Qed.

(** 2-D, every shape (ragged lists of rows included) *)
Lemma ifftshift2_fftshift2 {A} (x : list (list A)) : ifftshift2 (fftshift2 x) = x.
Proof.
  unfold ifftshift2, fftshift2. rewrite ifftshift1_map, ifftshift1_fftshift1, map_map.
  apply map_id_ext. intros r. apply ifftshift1_fftshift1.
Qed.
Lemma fftshift2_ifftshift2 {A} (x : list (list A)) : fftshift2 (ifftshift2 x) = x.
Proof.
  unfold ifftshift2, fftshift2. rewrite fftshift1_map, fftshift1_ifftshift1, map_map.
  apply map_id_ext. intros r. apply fftshift1_ifftshift1.
Qed.

(** 2-D index map: element (i, j) of a rectangular r x c array goes to ((i + r/2) mod r, (j + c/2) mod c) *)
Lemma fftshift2_moves {A} (x : list (list A)) i j (d : A) : (i < length x)%nat ->
  (j < length (nth i x []))%nat ->
  nth (fftshift_idx (length (nth i x [])) j) (nth (fftshift_idx (length x) i) (fftshift2 x) []) d
  = nth j (nth i x []) d.
Proof.
  intros Hi Hj. unfold fftshift2.
  assert (E : nth (fftshift_idx (length x) i) (map fftshift1 (fftshift1 x)) [] = fftshift1 (nth i x [])).
  { change (@nil A) with (fftshift1 (@nil A)) at 1. rewrite map_nth. f_equal.
    apply fftshift1_moves. exact Hi. }
  rewrite E. apply fftshift1_moves. exact Hj.
Qed.

(** shape bookkeeping: r x c rectangular images *)
Definition rect {X} (r c : nat) (x : list (list X)) : Prop :=
  length x = r /\ Forall (fun row => length row = c) x.

Lemma rect_fftshift2 {X} r c (x : list (list X)) : rect r c x -> rect r c (fftshift2 x).
Proof.
  intros [H1 H2]. unfold fftshift2. split.
  - rewrite map_length, fftshift1_length. exact H1.
  - apply Forall_map. apply rotl_Forall. eapply Forall_impl; [|exact H2].
    intros row Hr. simpl. rewrite fftshift1_length. exact Hr.
Qed.
Lemma rect_ifftshift2 {X} r c (x : list (list X)) : rect r c x -> rect r c (ifftshift2 x).
Proof.
  intros [H1 H2]. unfold ifftshift2. split.
  - rewrite map_length, ifftshift1_length. exact H1.
  - apply Forall_map. apply rotl_Forall. eapply Forall_impl; [|exact H2].
    intros row Hr. simpl. rewrite ifftshift1_length. exact Hr.
Qed.


(* ------------------------------------------------------------------------------------------ *)
(** * 2. coordinates (R instance) *)
Local Open Scope R_scope.

Lemma zrange_from_length i n : length (zrange_from i n) = n.
Proof. revert i. induction n as [|n IH]; intros i; simpl; [reflexivity|]. rewrite IH. reflexivity. Qed.

(** uniformly spaced coordinates: origin c0, spacing s, n pixels *)
Definition ucoord (c0 s : R) (n : nat) : list R := map (fun i => c0 + IZR i * s) (zrange_from 0 n).

Lemma ucoord_length c0 s n : length (ucoord c0 s n) = n.
Proof. unfold ucoord. rewrite map_length. apply zrange_from_length. Qed.

Lemma linspace_ucoord a b n : linspace RO a b n = ucoord a ((b - a) * / IZR (Z.of_nat n - 1)) n.
Proof. reflexivity. Qed.

Lemma spacing_ucoord c0 s n : (2 <= n)%nat -> spacing RO (ucoord c0 s n) = s.
Proof. intros H. destruct n as [|[|k]]; try lia. unfold spacing, ucoord. cbn. ring. Qed.

Lemma ft_coord_ucoord c0 s n : (2 <= n)%nat ->
  ft_coord RO (ucoord c0 s n) =
  let dim := IZR (Z.of_nat n) in
  ucoord (- (dim * / (2 * (s * dim)))) ((dim * / (2 * (s * dim)) - - (dim * / (2 * (s * dim)))) * / IZR (Z.of_nat n - 1)) n.
Proof.
  intros H. unfold ft_coord. rewrite ucoord_length, spacing_ucoord by exact H.
  rewrite linspace_ucoord. reflexivity.
Qed.

Lemma ift_coord_ucoord c0 s n : (2 <= n)%nat ->
  ift_coord RO (ucoord c0 s n) =
  let dim := IZR (Z.of_nat n) in ucoord 0 ((dim * / (s * dim) - 0) * / IZR (Z.of_nat n - 1)) n.
Proof.
  intros H. unfold ift_coord. rewrite ucoord_length, spacing_ucoord by exact H.
  rewrite linspace_ucoord. reflexivity.
Qed.

Lemma dim_facts n : (2 <= n)%nat -> IZR (Z.of_nat n) <> 0 /\ IZR (Z.of_nat n - 1) <> 0.
Proof.
  intros H. split; apply not_0_IZR; lia.
Qed.

(** frequency coordinates are symmetric about 0 with spacing 1 / (s (n-1)) *)
Lemma ft_coord_closed c0 s n : (2 <= n)%nat -> s <> 0 ->
  ft_coord RO (ucoord c0 s n) = ucoord (- / (2 * s)) (/ (s * IZR (Z.of_nat n - 1))) n.
Proof.
  intros H Hs. rewrite ft_coord_ucoord by exact H. cbv zeta.
  destruct (dim_facts n H) as [Hd Hd1].
  f_equal; field; repeat split; assumption.
Qed.

Lemma coords_roundtrip_origin0 c0 s n : (2 <= n)%nat -> s <> 0 ->
  ift_coord RO (ft_coord RO (ucoord c0 s n)) = ucoord 0 s n.
Proof.
  intros H Hs. rewrite ft_coord_closed by assumption.
  rewrite ift_coord_ucoord by exact H. cbv zeta.
  destruct (dim_facts n H) as [Hd Hd1].
  f_equal. field. repeat split; assumption.
Qed.

Lemma ucoord_shift c0 s n : ucoord 0 s n = map (fun x => x - c0) (ucoord c0 s n).
Proof. unfold ucoord. rewrite map_map. apply map_ext. intros i. ring. Qed.

Lemma coords_roundtrip_general c0 s n : (2 <= n)%nat -> s <> 0 ->
  ift_coord RO (ft_coord RO (ucoord c0 s n)) = map (fun x => x - c0) (ucoord c0 s n).
Proof. intros. rewrite coords_roundtrip_origin0 by assumption. apply ucoord_shift. Qed.

(* ------------------------------------------------------------------------------------------ *)
(** * 3. transfer function (R instance; pi, sqrt, cos, sin are the real functions) *)
Notation cxR := (cx R).
Definition cmulR := cmul RO.
Definition cisn := cis_neg RO cos sin.
Definition phR := phase RO PI sqrt.
Definition G1r := G1 RO PI sqrt cos sin.
Definition Gptr := Gpt RO PI sqrt cos sin.
Definition Ggridr := Ggrid RO PI sqrt cos sin.

Lemma cx_eq (a b c d : R) : a = c -> b = d -> (a, b) = (c, d).
Proof. intros; subst; reflexivity. Qed.

Lemma cmul_comm (a b : cxR) : cmul RO a b = cmul RO b a.
Proof. destruct a, b. unfold cmul; cbn. apply cx_eq; ring. Qed.
Lemma cmul_assoc (a b c : cxR) : cmul RO (cmul RO a b) c = cmul RO a (cmul RO b c).
Proof. destruct a, b, c. unfold cmul; cbn. apply cx_eq; ring. Qed.
Lemma cmul_1_r (a : cxR) : cmul RO a (c1 RO) = a.
Proof. destruct a. unfold cmul, c1; cbn. apply cx_eq; ring. Qed.
Lemma cmul_1_l (a : cxR) : cmul RO (c1 RO) a = a.
Proof. rewrite cmul_comm. apply cmul_1_r. Qed.
Lemma cmul_0_l (a : cxR) : cmul RO (c0 RO) a = c0 RO.
Proof. destruct a. unfold cmul, c0; cbn. apply cx_eq; ring. Qed.
Lemma cmul_add_l (a b c : cxR) : cmul RO (cadd RO a b) c = cadd RO (cmul RO a c) (cmul RO b c).
Proof. destruct a, b, c. unfold cmul, cadd; cbn. apply cx_eq; ring. Qed.
Lemma cmul_add_r (k a b : cxR) : cmul RO k (cadd RO a b) = cadd RO (cmul RO k a) (cmul RO k b).
Proof. destruct a, b, k. unfold cmul, cadd; cbn. apply cx_eq; ring. Qed.
Lemma cnorm2_cmul (a b : cxR) : cnorm2 RO (cmul RO a b) = cnorm2 RO a * cnorm2 RO b.
Proof. destruct a, b. unfold cmul, cnorm2; cbn. ring. Qed.
Lemma cnorm2_nonneg (a : cxR) : 0 <= cnorm2 RO a.
Proof. destruct a. unfold cnorm2; cbn. nra. Qed.

Lemma cpow_cmul (a b : cxR) k : cpow RO (cmul RO a b) k = cmul RO (cpow RO a k) (cpow RO b k).
Proof.
  induction k as [|k IH]; simpl; [symmetry; apply cmul_1_l|]. rewrite IH.
  rewrite !cmul_assoc. f_equal. rewrite <- !cmul_assoc. f_equal. apply cmul_comm.
Qed.
Lemma cpow_c1 k : cpow RO (c1 RO) k = c1 RO.
Proof. induction k as [|k IH]; simpl; [reflexivity|]. rewrite IH. apply cmul_1_l. Qed.
Lemma cpow_c0 k : cpow RO (c0 RO) (S k) = c0 RO.
Proof. simpl. apply cmul_0_l. Qed.
Lemma cnorm2_cpow (z : cxR) k : cnorm2 RO (cpow RO z k) = cnorm2 RO z ^ k.
Proof. induction k as [|k IH]; cbn [cpow]; [unfold cnorm2, c1; cbn; ring|]. rewrite cnorm2_cmul, IH. reflexivity. Qed.

Lemma clamp_Rmax r : clamp RO r = Rmax 0 r.
Proof. unfold clamp, Rmax; cbn. unfold Rleb. destruct (Rle_dec 0 r); reflexivity. Qed.
Lemma clamp_nonneg r : 0 <= clamp RO r.
Proof. rewrite clamp_Rmax. apply Rmax_l. Qed.
Lemma clamp_mask_vacuous r : leb RO 0 (clamp RO r) = true.
Proof. cbn. apply Rleb_true. apply clamp_nonneg. Qed.
Lemma clamp_id r : 0 <= r -> clamp RO r = r.
Proof. intros H. rewrite clamp_Rmax. apply Rmax_right. exact H. Qed.

Lemma cisn_add a b : cmul RO (cisn a) (cisn b) = cisn (a + b).
Proof. unfold cisn, cis_neg, cmul; cbn. rewrite cos_plus, sin_plus. apply cx_eq; ring. Qed.
Lemma cisn_0 : cisn 0 = c1 RO.
Proof. unfold cisn, cis_neg, c1; cbn. rewrite cos_0, sin_0. apply cx_eq; ring. Qed.
Lemma cisn_norm a : cnorm2 RO (cisn a) = 1.
Proof. unfold cisn, cis_neg, cnorm2; cbn. pose proof (sin2_cos2 a) as H. unfold Rsqr in H. lra. Qed.
Lemma phR_add lam d1 d2 r : phR lam (d1 + d2) r = phR lam d1 r + phR lam d2 r.
Proof. unfold phR, phase; cbn. ring. Qed.
Lemma phR_0 lam r : phR lam 0 r = 0.
Proof. unfold phR, phase; cbn. ring. Qed.

(** the mask condition of G1 *)
Definition passes (evan0 : bool) (lam m n : R) : bool :=
  if evan0 then leb RO 0 (root RO lam m n) else leb RO 0 (clamp RO (root RO lam m n)).
Lemma passes_code lam m n : passes false lam m n = true.
Proof. apply clamp_mask_vacuous. Qed.
Lemma passes_of evan0 lam m n : evan0 = false \/ 0 <= root RO lam m n -> passes evan0 lam m n = true.
Proof.
  intros [->|H]; [apply passes_code|]. destruct evan0; [|apply passes_code].
  cbn. apply Rleb_true. exact H.
Qed.
Lemma G1_plain evan0 lam d m n :
  G1r evan0 lam None d m n =
  if passes evan0 lam m n then cisn (phR lam d (clamp RO (root RO lam m n))) else c0 RO.
Proof. reflexivity. Qed.
Lemma G1_gf evan0 lam f d m n :
  G1r evan0 lam (Some f) d m n = csub RO (G1r evan0 lam None d m n) (G1r evan0 lam None (d + f) m n).
Proof.
  unfold G1r, G1; cbv zeta.
  destruct evan0; (match goal with |- context [if ?c then _ else _] => destruct c end); try reflexivity;
  unfold csub, c0; cbn; apply cx_eq; ring.
Qed.

Lemma G1_additive evan0 lam d1 d2 m n :
  cmul RO (G1r evan0 lam None d1 m n) (G1r evan0 lam None d2 m n) = G1r evan0 lam None (d1 + d2) m n.
Proof.
  rewrite !G1_plain. destruct (passes evan0 lam m n).
  - rewrite cisn_add, phR_add. reflexivity.
  - apply cmul_0_l.
Qed.
Lemma G1_zero evan0 lam m n : passes evan0 lam m n = true -> G1r evan0 lam None 0 m n = c1 RO.
Proof. intros H. rewrite G1_plain, H, phR_0. apply cisn_0. Qed.
Lemma G1_norm evan0 lam d m n :
  cnorm2 RO (G1r evan0 lam None d m n) = if passes evan0 lam m n then 1 else 0.
Proof.
  rewrite G1_plain. destruct (passes evan0 lam m n); [apply cisn_norm|].
  unfold cnorm2, c0; cbn. ring.
Qed.

Lemma Rdiv_add_RO (a b c : R) : mul RO (a + b) (inv RO c) = mul RO a (inv RO c) + mul RO b (inv RO c).
Proof. cbn. ring. Qed.

Lemma Gpt_additive evan0 lam cfsp d1 d2 m n :
  cmul RO (Gptr evan0 lam cfsp None d1 m n) (Gptr evan0 lam cfsp None d2 m n)
  = Gptr evan0 lam cfsp None (d1 + d2) m n.
Proof.
  unfold Gptr, Gpt. destruct cfsp as [|k]; [apply G1_additive|].
  rewrite <- cpow_cmul. f_equal. fold G1r. change (add RO d1 d2) with (d1 + d2).
  rewrite Rdiv_add_RO. apply G1_additive.
Qed.
Lemma Gpt_zero evan0 lam cfsp m n : passes evan0 lam m n = true -> Gptr evan0 lam cfsp None 0 m n = c1 RO.
Proof.
  intros H. unfold Gptr, Gpt. destruct cfsp as [|k]; [apply G1_zero; exact H|].
  fold G1r. replace (mul RO 0 (inv RO (ofZ RO (Z.of_nat (S k))))) with 0 by (cbn; ring).
  rewrite G1_zero by exact H. apply cpow_c1.
Qed.
Lemma Gpt_inverse evan0 lam cfsp d m n : passes evan0 lam m n = true ->
  cmul RO (Gptr evan0 lam cfsp None d m n) (Gptr evan0 lam cfsp None (- d) m n) = c1 RO.
Proof.
  intros H. rewrite Gpt_additive. replace (d + - d) with 0 by ring. apply Gpt_zero. exact H.
Qed.
Lemma Gpt_norm evan0 lam cfsp d m n :
  cnorm2 RO (Gptr evan0 lam cfsp None d m n) = if passes evan0 lam m n then 1 else 0.
Proof.
  unfold Gptr, Gpt. destruct cfsp as [|k]; [apply G1_norm|]. fold G1r.
  rewrite cnorm2_cpow, G1_norm. destruct (passes evan0 lam m n); [apply pow1|].
  simpl. ring.
Qed.
Lemma Gpt_norm_le_1 evan0 lam cfsp d m n : cnorm2 RO (Gptr evan0 lam cfsp None d m n) <= 1.
Proof. rewrite Gpt_norm. destruct (passes evan0 lam m n); lra. Qed.

(** cascaded free-space propagation: G(d/c)^c = G(d) for every c >= 1 *)
Lemma cpow_cisn t k : cpow RO (cisn t) k = cisn (INR k * t).
Proof.
  induction k as [|k IH].
  - simpl. replace (0 * t) with 0 by ring. symmetry. apply cisn_0.
  - rewrite S_INR. simpl cpow. rewrite IH, cisn_add. f_equal. ring.
Qed.
Lemma cfsp_power_lemma evan0 lam k d m n :
  Gptr evan0 lam (S k) None d m n = G1r evan0 lam None d m n.
Proof.
  unfold Gptr, Gpt. fold G1r. rewrite !G1_plain. destruct (passes evan0 lam m n); [|apply cpow_c0].
  rewrite cpow_cisn. f_equal. cbn [mul inv ofZ RO].
  set (r := clamp RO (root RO lam m n)).
  rewrite <- INR_IZR_INZ. set (c := INR (S k)).
  assert (Hc : c <> 0) by (apply not_0_INR; discriminate).
  assert (E : c * (d * / c) = d) by (field; exact Hc).
  unfold phR, phase; cbn [mul add one inv RO].
  transitivity ((1 + 1) * PI * (c * (d * / c)) * / lam * sqrt r); [ring|rewrite E; reflexivity].
Qed.

(* ------------------------------------------------------------------------------------------ *)
(** * 4. zipw algebra, fft / ifft / propagate *)
Section Zipw.
Context {X : Type}.
Lemma zipw_assoc (f : X -> X -> X) : (forall a b c, f (f a b) c = f a (f b c)) ->
  forall a b c, zipw f (zipw f a b) c = zipw f a (zipw f b c).
Proof.
  intros H a. induction a as [|x a IH]; intros [|y b] [|z c]; simpl; try reflexivity.
  rewrite H, IH. reflexivity.
Qed.
Lemma zipw_map_same {Y Z W} (f : Y -> Z -> W) (g : X -> Y) (h : X -> Z) l :
  zipw f (map g l) (map h l) = map (fun x => f (g x) (h x)) l.
Proof. induction l as [|x l IH]; simpl; [reflexivity|]. rewrite IH. reflexivity. Qed.
Lemma zipw_length {Y Z} (f : X -> Y -> Z) a b : length (zipw f a b) = Nat.min (length a) (length b).
Proof. revert b. induction a as [|x a IH]; intros [|y b]; simpl; try reflexivity. rewrite IH. reflexivity. Qed.
Lemma zipw_map_l {Y} (f : X -> Y -> X) (h : X -> X) : (forall x y, f (h x) y = h (f x y)) ->
  forall a b, zipw f (map h a) b = map h (zipw f a b).
Proof. intros H a. induction a as [|x a IH]; intros [|y b]; simpl; try reflexivity. rewrite H, IH. reflexivity. Qed.
Lemma zipw_const_r {Y} (f : X -> Y -> X) (e : Y) {W} : (forall x, f x e = x) ->
  forall a (l : list W), length a = length l -> zipw f a (map (fun _ => e) l) = a.
Proof.
  intros H a. induction a as [|x a IH]; intros [|w l] E; simpl in *; try reflexivity; try discriminate.
  rewrite H, IH by (injection E; auto). reflexivity.
Qed.
Lemma zipw_distr_l {Y} (f : X -> Y -> X) (p : X -> X -> X) : (forall x y z, f (p x y) z = p (f x z) (f y z)) ->
  forall a b g, zipw f (zipw p a b) g = zipw p (zipw f a g) (zipw f b g).
Proof.
  intros H a. induction a as [|x a IH]; intros [|y b] [|z g]; simpl; try reflexivity.
  rewrite H, IH. reflexivity.
Qed.
Lemma zipw_firstn {Y Z} (f : X -> Y -> Z) k a b : firstn k (zipw f a b) = zipw f (firstn k a) (firstn k b).
Proof. revert a b. induction k as [|k IH]; intros [|x a] [|y b]; simpl; try reflexivity. rewrite IH. reflexivity. Qed.
Lemma zipw_skipn {Y Z} (f : X -> Y -> Z) k a b : length a = length b ->
  skipn k (zipw f a b) = zipw f (skipn k a) (skipn k b).
Proof. revert a b. induction k as [|k IH]; intros [|x a] [|y b] E; simpl in *; try reflexivity; try discriminate.
  apply IH. injection E; auto. Qed.
Lemma zipw_app {Y Z} (f : X -> Y -> Z) a1 a2 b1 b2 : length a1 = length b1 ->
  zipw f (a1 ++ a2) (b1 ++ b2) = zipw f a1 b1 ++ zipw f a2 b2.
Proof. revert b1. induction a1 as [|x a IH]; intros [|y b] E; simpl in *; try reflexivity; try discriminate.
  rewrite IH by (injection E; auto). reflexivity. Qed.
Lemma rotl_zipw {Y Z} (f : X -> Y -> Z) k a b : length a = length b ->
  rotl k (zipw f a b) = zipw f (rotl k a) (rotl k b).
Proof.
  intros E. unfold rotl. rewrite zipw_skipn, zipw_firstn by exact E.
  rewrite zipw_app; [reflexivity|]. rewrite !skipn_length, E. reflexivity.
Qed.
Lemma fftshift1_zipw {Y Z} (f : X -> Y -> Z) a b : length a = length b ->
  fftshift1 (zipw f a b) = zipw f (fftshift1 a) (fftshift1 b).
Proof. intros E. unfold fftshift1. rewrite zipw_length, <- E, Nat.min_id. apply rotl_zipw. exact E. Qed.
Lemma ifftshift1_zipw {Y Z} (f : X -> Y -> Z) a b : length a = length b ->
  ifftshift1 (zipw f a b) = zipw f (ifftshift1 a) (ifftshift1 b).
Proof. intros E. unfold ifftshift1. rewrite zipw_length, <- E, Nat.min_id. apply rotl_zipw. exact E. Qed.
Lemma map_zipw_rows {Y Z} (f : X -> Y -> Z) (sx : list X -> list X) (sy : list Y -> list Y) (sz : list Z -> list Z) c :
  (forall a b, length a = c -> length b = c -> sz (zipw f a b) = zipw f (sx a) (sy b)) ->
  forall A B, Forall (fun r => length r = c) A -> Forall (fun r => length r = c) B ->
  map sz (zipw (zipw f) A B) = zipw (zipw f) (map sx A) (map sy B).
Proof.
  intros H A. induction A as [|a A IH]; intros [|b B] HA HB; simpl; try reflexivity.
  inversion HA as [|? ? Ha HA']; inversion HB as [|? ? Hb HB'].
  rewrite H, IH by assumption. reflexivity.
Qed.
End Zipw.

Lemma rect_zipw {X Y Z} (f : X -> Y -> Z) r c a b : rect r c a -> rect r c b -> rect r c (zipw (zipw f) a b).
Proof.
  intros [Ha1 Ha2] [Hb1 Hb2]. split.
  - rewrite zipw_length, Ha1, Hb1. apply Nat.min_id.
  - clear Ha1 Hb1. revert b Hb2. induction a as [|x a IH]; intros [|y b] Hb2; simpl; constructor.
    + inversion Ha2; inversion Hb2; subst. rewrite zipw_length. lia.
    + inversion Ha2; inversion Hb2; subst. apply IH; assumption.
Qed.
Lemma rect_map_map {X Y} (h : X -> Y) r c a : rect r c a -> rect r c (map (map h) a).
Proof.
  intros [H1 H2]. split; [rewrite map_length; exact H1|]. apply Forall_map.
  eapply Forall_impl; [|exact H2]. intros row Hr. simpl. rewrite map_length. exact Hr.
Qed.

Lemma fftshift2_zipw {X Y Z} (f : X -> Y -> Z) r c a b : rect r c a -> rect r c b ->
  fftshift2 (zipw (zipw f) a b) = zipw (zipw f) (fftshift2 a) (fftshift2 b).
Proof.
  intros [Ha1 Ha2] [Hb1 Hb2]. unfold fftshift2.
  rewrite fftshift1_zipw by congruence.
  apply (map_zipw_rows f fftshift1 fftshift1 fftshift1 c).
  - intros; apply fftshift1_zipw; congruence.
  - apply rotl_Forall; exact Ha2.
  - apply rotl_Forall; exact Hb2.
Qed.
Lemma ifftshift2_zipw {X Y Z} (f : X -> Y -> Z) r c a b : rect r c a -> rect r c b ->
  ifftshift2 (zipw (zipw f) a b) = zipw (zipw f) (ifftshift2 a) (ifftshift2 b).
Proof.
  intros [Ha1 Ha2] [Hb1 Hb2]. unfold ifftshift2.
  rewrite ifftshift1_zipw by congruence.
  apply (map_zipw_rows f ifftshift1 ifftshift1 ifftshift1 c).
  - intros; apply ifftshift1_zipw; congruence.
  - apply rotl_Forall; exact Ha2.
  - apply rotl_Forall; exact Hb2.
Qed.
Lemma fftshift2_map_map {X Y} (h : X -> Y) a : fftshift2 (map (map h) a) = map (map h) (fftshift2 a).
Proof.
  unfold fftshift2. rewrite fftshift1_map, !map_map. apply map_ext. intros row. apply fftshift1_map.
Qed.
Lemma ifftshift2_map_map {X Y} (h : X -> Y) a : ifftshift2 (map (map h) a) = map (map h) (ifftshift2 a).
Proof.
  unfold ifftshift2. rewrite ifftshift1_map, !map_map. apply map_ext. intros row. apply ifftshift1_map.
Qed.

Notation imgR := (img R).

Lemma pmul_assoc (a b c : imgR) : pmul RO (pmul RO a b) c = pmul RO a (pmul RO b c).
Proof. unfold pmul. apply zipw_assoc. intros. apply zipw_assoc. apply cmul_assoc. Qed.

Lemma pmul_add_l (a b g : imgR) : pmul RO (img_add RO a b) g = img_add RO (pmul RO a g) (pmul RO b g).
Proof.
  unfold pmul, img_add. apply zipw_distr_l. intros. apply zipw_distr_l. apply cmul_add_l.
Qed.
Lemma pmul_scale_l k (a g : imgR) : pmul RO (img_scale RO k a) g = img_scale RO k (pmul RO a g).
Proof.
  unfold pmul, img_scale. apply zipw_map_l. intros. apply zipw_map_l. intros. apply cmul_assoc.
Qed.

(** grid of the transfer function *)
Lemma Ggrid_rect evan0 lam cfsp gf xs ys d :
  rect (length xs) (length ys) (Ggridr evan0 lam cfsp gf xs ys d).
Proof.
  unfold Ggridr, Ggrid, ft_coord, linspace. split.
  - rewrite !map_length. apply zrange_from_length.
  - apply Forall_map. apply Forall_forall. intros m _. rewrite !map_length. apply zrange_from_length.
Qed.
Lemma Ggrid_additive evan0 lam cfsp xs ys d1 d2 :
  pmul RO (Ggridr evan0 lam cfsp None xs ys d1) (Ggridr evan0 lam cfsp None xs ys d2)
  = Ggridr evan0 lam cfsp None xs ys (d1 + d2).
Proof.
  unfold pmul, Ggridr, Ggrid. rewrite zipw_map_same. apply map_ext. intros m.
  rewrite zipw_map_same. apply map_ext. intros n. apply Gpt_additive.
Qed.

(** no spatial frequency of the grid is evanescent *)
Definition no_evanescent (lam : R) (xs ys : list R) : Prop :=
  forall m n, In m (ft_coord RO xs) -> In n (ft_coord RO ys) -> 0 <= root RO lam m n.

Lemma map_ext_in' {X Y} (f g : X -> Y) l : (forall x, In x l -> f x = g x) -> map f l = map g l.
Proof. apply map_ext_in. Qed.

Lemma pmul_ones {W1 W2} (a : imgR) (l : list W1) (l2 : list W2) : length a = length l ->
  Forall (fun row => length row = length l2) a ->
  zipw (zipw (cmul RO)) a (map (fun _ => map (fun _ => c1 RO) l2) l) = a.
Proof.
  revert l. induction a as [|row a IH]; intros [|m l] E H2; simpl in *; try reflexivity; try discriminate.
  inversion H2 as [|? ? Hr H2']. f_equal.
  - apply zipw_const_r; [apply cmul_1_r|exact Hr].
  - apply IH; [injection E; auto|exact H2'].
Qed.

Lemma pmul_G_inverse evan0 lam cfsp xs ys d (a : imgR) :
  evan0 = false \/ no_evanescent lam xs ys ->
  rect (length xs) (length ys) a ->
  pmul RO (pmul RO a (Ggridr evan0 lam cfsp None xs ys d)) (Ggridr evan0 lam cfsp None xs ys (- d)) = a.
Proof.
  intros Hev [Ha1 Ha2]. rewrite pmul_assoc.
  assert (E : pmul RO (Ggridr evan0 lam cfsp None xs ys d) (Ggridr evan0 lam cfsp None xs ys (- d))
              = map (fun _ => map (fun _ => c1 RO) (ft_coord RO ys)) (ft_coord RO xs)).
  { unfold pmul, Ggridr, Ggrid. rewrite zipw_map_same. apply map_ext_in. intros m Hm.
    rewrite zipw_map_same. apply map_ext_in. intros n Hn. apply Gpt_inverse. apply passes_of.
    destruct Hev as [->|Hne]; [left; reflexivity|right; apply Hne; assumption]. }
  rewrite E. unfold pmul.
  assert (Lx : length (ft_coord RO xs) = length xs).
  { unfold ft_coord, linspace. rewrite map_length. apply zrange_from_length. }
  assert (Ly : length (ft_coord RO ys) = length ys).
  { unfold ft_coord, linspace. rewrite map_length. apply zrange_from_length. }
  apply pmul_ones; [congruence|]. rewrite Ly. exact Ha2.
Qed.

Section PropagLemmas.
Variables F Finv : imgR -> imgR.

Lemma ifft_fft_id_lemma : (forall x, Finv (F x) = x) -> forall x, ifft_m Finv (fft_m F x) = x.
Proof. intros H x. unfold ifft_m, fft_m. rewrite ifftshift2_fftshift2. apply H. Qed.
Lemma fft_ifft_id_lemma : (forall y, F (Finv y) = y) -> forall y, fft_m F (ifft_m Finv y) = y.
Proof. intros H y. unfold ifft_m, fft_m. rewrite H. apply fftshift2_ifftshift2. Qed.

Lemma prop1_compose : (forall y, F (Finv y) = y) -> forall g1 g2 v,
  prop1 RO F Finv g2 (prop1 RO F Finv g1 v) = prop1 RO F Finv (pmul RO g1 g2) v.
Proof.
  intros H g1 g2 v. unfold prop1.
  rewrite (fft_ifft_id_lemma H). rewrite pmul_assoc. reflexivity.
Qed.

Lemma prop1_scale : (forall k x, F (img_scale RO k x) = img_scale RO k (F x)) ->
  (forall k y, Finv (img_scale RO k y) = img_scale RO k (Finv y)) ->
  forall g k v, prop1 RO F Finv g (img_scale RO k v) = img_scale RO k (prop1 RO F Finv g v).
Proof.
  intros HF HI g k v. unfold prop1, fft_m, ifft_m. rewrite HF. unfold img_scale at 1.
  rewrite fftshift2_map_map. fold (img_scale RO k (fftshift2 (F v))). rewrite pmul_scale_l.
  unfold img_scale at 1. rewrite ifftshift2_map_map. apply HI.
Qed.

Lemma prop1_add r c : (forall x y, F (img_add RO x y) = img_add RO (F x) (F y)) ->
  (forall x y, rect r c x -> rect r c y -> Finv (img_add RO x y) = img_add RO (Finv x) (Finv y)) ->
  forall g a b, rect r c (F a) -> rect r c (F b) -> rect r c g ->
  prop1 RO F Finv g (img_add RO a b) = img_add RO (prop1 RO F Finv g a) (prop1 RO F Finv g b).
Proof.
  intros HF HI g a b Ra Rb Rg. unfold prop1, fft_m, ifft_m. rewrite HF. unfold img_add at 1.
  rewrite (fftshift2_zipw (cadd RO) r c) by assumption. fold (img_add RO (fftshift2 (F a)) (fftshift2 (F b))).
  rewrite pmul_add_l. unfold img_add at 1.
  assert (R1 : rect r c (pmul RO (fftshift2 (F a)) g)) by (apply rect_zipw; [apply rect_fftshift2|]; assumption).
  assert (R2 : rect r c (pmul RO (fftshift2 (F b)) g)) by (apply rect_zipw; [apply rect_fftshift2|]; assumption).
  rewrite (ifftshift2_zipw (cadd RO) r c) by assumption.
  apply HI; apply rect_ifftshift2; assumption.
Qed.

(** energy *)
Lemma row_energy_nil : row_energy RO [] = 0. Proof. reflexivity. Qed.
Lemma row_energy_cons z (a : list cxR) : row_energy RO (z :: a) = cnorm2 RO z + row_energy RO a.
Proof. reflexivity. Qed.
Lemma energy_nil : energy RO [] = 0. Proof. reflexivity. Qed.
Lemma energy_cons r (a : imgR) : energy RO (r :: a) = row_energy RO r + energy RO a.
Proof. reflexivity. Qed.
Lemma row_energy_app (a b : list cxR) : row_energy RO (a ++ b) = row_energy RO a + row_energy RO b.
Proof. induction a as [|z a IH]; [rewrite row_energy_nil; simpl app; ring|].
  simpl app. rewrite !row_energy_cons, IH. ring. Qed.
Lemma row_energy_rotl k (a : list cxR) : row_energy RO (rotl k a) = row_energy RO a.
Proof. unfold rotl. rewrite row_energy_app. rewrite <- (firstn_skipn k a) at 3. rewrite row_energy_app. ring. Qed.
Lemma energy_app (a b : imgR) : energy RO (a ++ b) = energy RO a + energy RO b.
Proof. induction a as [|z a IH]; [rewrite energy_nil; simpl app; ring|].
  simpl app. rewrite !energy_cons, IH. ring. Qed.
Lemma energy_rotl k (a : imgR) : energy RO (rotl k a) = energy RO a.
Proof. unfold rotl. rewrite energy_app. rewrite <- (firstn_skipn k a) at 3. rewrite energy_app. ring. Qed.
Lemma energy_map_rows (s : list cxR -> list cxR) (a : imgR) : (forall r, row_energy RO (s r) = row_energy RO r) ->
  energy RO (map s a) = energy RO a.
Proof. intros H. induction a as [|r a IH]; [reflexivity|]. simpl map. rewrite !energy_cons, H, IH. reflexivity. Qed.
Lemma energy_fftshift2 (a : imgR) : energy RO (fftshift2 a) = energy RO a.
Proof. unfold fftshift2. rewrite energy_map_rows by (intros; apply row_energy_rotl). apply energy_rotl. Qed.
Lemma energy_ifftshift2 (a : imgR) : energy RO (ifftshift2 a) = energy RO a.
Proof. unfold ifftshift2. rewrite energy_map_rows by (intros; apply row_energy_rotl). apply energy_rotl. Qed.
Lemma row_energy_nonneg (a : list cxR) : 0 <= row_energy RO a.
Proof. induction a as [|z a IH]; [rewrite row_energy_nil; lra|]. rewrite row_energy_cons.
  pose proof (cnorm2_nonneg z). lra. Qed.
Lemma energy_nonneg (a : imgR) : 0 <= energy RO a.
Proof. induction a as [|z a IH]; [rewrite energy_nil; lra|]. rewrite energy_cons.
  pose proof (row_energy_nonneg z). lra. Qed.

(** every entry of the multiplier has modulus <= 1 *)
Definition bounded1 (g : imgR) : Prop := Forall (Forall (fun z => cnorm2 RO z <= 1)) g.
Lemma row_energy_mul_le (a g : list cxR) : Forall (fun z => cnorm2 RO z <= 1) g ->
  row_energy RO (zipw (cmul RO) a g) <= row_energy RO a.
Proof.
  revert g. induction a as [|z a IH]; intros [|w g] Hg; simpl zipw;
    rewrite ?row_energy_nil, ?row_energy_cons; try lra.
  - pose proof (row_energy_nonneg a). pose proof (cnorm2_nonneg z). lra.
  - inversion Hg as [|? ? Hw Hg']. specialize (IH g Hg'). rewrite cnorm2_cmul.
    pose proof (cnorm2_nonneg z). pose proof (cnorm2_nonneg w). nra.
Qed.
Lemma energy_pmul_le (a g : imgR) : bounded1 g -> energy RO (pmul RO a g) <= energy RO a.
Proof.
  unfold pmul. revert g. induction a as [|r a IH]; intros [|w g] Hg; simpl zipw;
    rewrite ?energy_nil, ?energy_cons; try lra.
  - pose proof (energy_nonneg a). pose proof (row_energy_nonneg r). lra.
  - inversion Hg as [|? ? Hw Hg']. specialize (IH g Hg'). pose proof (row_energy_mul_le r w Hw). lra.
Qed.
Lemma Ggrid_bounded1 evan0 lam cfsp xs ys d : bounded1 (Ggridr evan0 lam cfsp None xs ys d).
Proof.
  unfold bounded1, Ggridr, Ggrid. apply Forall_map. apply Forall_forall. intros m _.
  apply Forall_map. apply Forall_forall. intros n _. apply Gpt_norm_le_1.
Qed.

(** Parseval is assumed only at the two points where it is used *)
Lemma energy_nonincreasing_lemma g v kap : 0 < kap -> bounded1 g ->
  energy RO (F v) = kap * energy RO v ->
  kap * energy RO (Finv (ifftshift2 (pmul RO (fft_m F v) g))) = energy RO (ifftshift2 (pmul RO (fft_m F v) g)) ->
  energy RO (prop1 RO F Finv g v) <= energy RO v.
Proof.
  intros Hk Hg HP HPi. unfold prop1, ifft_m.
  rewrite energy_ifftshift2 in HPi.
  pose proof (energy_pmul_le (fft_m F v) g Hg) as Hle. unfold fft_m in Hle at 2.
  rewrite energy_fftshift2, HP in Hle. nra.
Qed.
End PropagLemmas.

(** * propagate / propagate_list (R instance, any oracle pair, any grid function unless stated) *)
Section PropagateLemmas.
Variables F Finv : imgR -> imgR.
Context {X : Type}.
Implicit Types (m : meta R X) (v : imgR) (xs ys : list R).

Lemma Reqb_refl x : Reqb x x = true.
Proof. apply Reqb_true. reflexivity. Qed.
Lemma Reqb_false x y : x <> y -> Reqb x y = false.
Proof. intros H. unfold Reqb. destruct (Req_EM_T x y); [contradiction|reflexivity]. Qed.

Lemma propagate_zero_lemma gridf (im : image R X) mi wl cfsp gf :
  propagate RO F Finv gridf im 0 mi wl cfsp gf = Some im.
Proof. unfold propagate. cbn [eqb zero RO]. rewrite Reqb_refl. reflexivity. Qed.

Lemma propagate_nonzero gridf xs ys v m d mi wl cfsp gf : d <> 0 ->
  propagate RO F Finv gridf (xs, ys, v, m) d mi wl cfsp gf =
  match med_wavelen RO (update_meta mi wl m) with
  | None => None
  | Some lam => Some (xs, ys, prop1 RO F Finv (gridf lam cfsp gf xs ys d) v, update_meta mi wl m)
  end.
Proof. intros H. unfold propagate. cbn [eqb zero RO]. rewrite Reqb_false by exact H. reflexivity. Qed.

Lemma upd_idem (a b : option R) : upd a (upd a b) = upd a b.
Proof. destruct a; reflexivity. Qed.
Lemma update_meta_idem mi wl m : update_meta mi wl (update_meta mi wl m) = update_meta mi wl m.
Proof. destruct m as [[a b] x]. unfold update_meta. rewrite !upd_idem. reflexivity. Qed.
Lemma update_meta_none m : update_meta None None m = m.
Proof. destruct m as [[a b] x]. reflexivity. Qed.

(** coordinates are kept, metadata = update_metadata(data, medium_index, illum_wavelen) incl. name / other attrs *)
Lemma propagate_keeps_lemma gridf xs ys v m d mi wl cfsp gf xs' ys' v' m' : d <> 0 ->
  propagate RO F Finv gridf (xs, ys, v, m) d mi wl cfsp gf = Some (xs', ys', v', m') ->
  xs' = xs /\ ys' = ys /\ m' = update_meta mi wl m /\ snd m' = snd m.
Proof.
  intros Hd H. rewrite propagate_nonzero in H by exact Hd.
  destruct (med_wavelen RO (update_meta mi wl m)); [|discriminate].
  inversion H; subst. repeat split. destruct m as [[a b] x]. reflexivity.
Qed.

Variable evan0 : bool.
Let gridR := fun lam cfsp gf xs ys d => Ggridr evan0 lam cfsp gf xs ys d.

Lemma propagate_additive_lemma : (forall y, F (Finv y) = y) ->
  forall (im im1 : image R X) d1 d2 mi wl cfsp, d1 <> 0 -> d2 <> 0 -> d1 + d2 <> 0 ->
  propagate RO F Finv gridR im d1 mi wl cfsp None = Some im1 ->
  propagate RO F Finv gridR im1 d2 mi wl cfsp None = propagate RO F Finv gridR im (d1 + d2) mi wl cfsp None.
Proof.
  intros HF [[[xs ys] v] m] im1 d1 d2 mi wl cfsp H1 H2 H12 E.
  rewrite propagate_nonzero in E by exact H1. rewrite (propagate_nonzero _ _ _ _ _ (d1 + d2)) by exact H12.
  destruct (med_wavelen RO (update_meta mi wl m)) as [lam|] eqn:El; [|discriminate].
  inversion E; subst im1. rewrite propagate_nonzero by exact H2.
  rewrite update_meta_idem, El. unfold gridR. rewrite (prop1_compose F Finv HF), Ggrid_additive. reflexivity.
Qed.

Lemma propagate_inverse_lemma : (forall x, Finv (F x) = x) -> (forall y, F (Finv y) = y) ->
  forall xs ys v m v1 m1 d mi wl cfsp, d <> 0 ->
  rect (length xs) (length ys) (F v) ->
  (evan0 = false \/ forall lam, med_wavelen RO (update_meta mi wl m) = Some lam -> no_evanescent lam xs ys) ->
  propagate RO F Finv gridR (xs, ys, v, m) d mi wl cfsp None = Some (xs, ys, v1, m1) ->
  propagate RO F Finv gridR (xs, ys, v1, m1) (- d) mi wl cfsp None = Some (xs, ys, v, m1).
Proof.
  intros HI HF xs ys v m v1 m1 d mi wl cfsp Hd Hr Hev E.
  rewrite propagate_nonzero in E by exact Hd.
  destruct (med_wavelen RO (update_meta mi wl m)) as [lam|] eqn:El; [|discriminate].
  inversion E; subst v1 m1. clear E.
  rewrite propagate_nonzero by lra. rewrite update_meta_idem, El. unfold gridR.
  unfold prop1. rewrite (fft_ifft_id_lemma F Finv HF).
  rewrite pmul_G_inverse.
  - rewrite (ifft_fft_id_lemma F Finv HI). reflexivity.
  - destruct Hev as [->|H]; [left; reflexivity|right; apply H; reflexivity].
  - unfold fft_m. apply rect_fftshift2. exact Hr.
Qed.

(** a list of distances gives the labelled stack of the single-distance results (+ the input, once,
    labelled with its own z, if the list contains a zero) *)
Lemma list_is_stack_lemma gridf xs ys v m z0 ds mi wl cfsp gf xs' ys' sl m' :
  propagate_list RO F Finv gridf (xs, ys, v, m) z0 ds mi wl cfsp gf = Some (xs', ys', sl, m') ->
  exists Vf : R -> imgR,
    (forall d, d <> 0 -> propagate RO F Finv gridf (xs, ys, v, m) d mi wl cfsp gf = Some (xs', ys', Vf d, m')) /\
    sl = (if existsb (fun d => Reqb d 0) ds then [(z0, v)] else [])
         ++ map (fun d => (d, Vf d)) (filter (fun d => negb (Reqb d 0)) ds) /\
    xs' = xs /\ ys' = ys /\ m' = update_meta mi wl m.
Proof.
  unfold propagate_list. intros H.
  destruct (med_wavelen RO (update_meta mi wl m)) as [lam|] eqn:El; [|discriminate].
  injection H as Hx Hy Hs Hm. subst xs' ys' sl m'.
  exists (fun d => prop1 RO F Finv (gridf lam cfsp gf xs ys d) v). split; [|split; [|auto]].
  - intros d Hd. rewrite propagate_nonzero by exact Hd. rewrite El. reflexivity.
  - cbn [eqb zero RO]. destruct (existsb (fun d => Reqb d 0) ds); reflexivity.
Qed.
Lemma list_missing_lemma gridf xs ys v m z0 ds mi wl cfsp gf :
  propagate_list RO F Finv gridf (xs, ys, v, m) z0 ds mi wl cfsp gf = None <->
  (forall d, d <> 0 -> propagate RO F Finv gridf (xs, ys, v, m) d mi wl cfsp gf = None).
Proof.
  unfold propagate_list. split.
  - intros H d Hd. rewrite propagate_nonzero by exact Hd.
    destruct (med_wavelen RO (update_meta mi wl m)); [discriminate|reflexivity].
  - intros H. specialize (H 1 R1_neq_R0). rewrite propagate_nonzero in H by exact R1_neq_R0.
    destruct (med_wavelen RO (update_meta mi wl m)); [discriminate|reflexivity].
Qed.

Lemma propagate_linear_lemma r c : 
  (forall x y, F (img_add RO x y) = img_add RO (F x) (F y)) ->
  (forall x y, rect r c x -> rect r c y -> Finv (img_add RO x y) = img_add RO (Finv x) (Finv y)) ->
  (forall k x, F (img_scale RO k x) = img_scale RO k (F x)) ->
  (forall k y, Finv (img_scale RO k y) = img_scale RO k (Finv y)) ->
  forall g a b ka kb, rect r c (F a) -> rect r c (F b) -> rect r c g ->
  prop1 RO F Finv g (img_add RO (img_scale RO ka a) (img_scale RO kb b))
  = img_add RO (img_scale RO ka (prop1 RO F Finv g a)) (img_scale RO kb (prop1 RO F Finv g b)).
Proof.
  intros HFa HIa HFs HIs g a b ka kb Ra Rb Rg.
  rewrite (prop1_add F Finv r c HFa HIa); try assumption.
  - rewrite !(prop1_scale F Finv HFs HIs). reflexivity.
  - rewrite HFs. apply rect_map_map. exact Ra.
  - rewrite HFs. apply rect_map_map. exact Rb.
Qed.
End PropagateLemmas.

(* ------------------------------------------------------------------------------------------ *)
(** * 5. the executed instances compute the functions the theorems are about *)

(** closed real form evaluated by Coq-Interval in the correspondence = generic model at R (the code's
    clamp-first behaviour, evan0 = false) *)
Lemma phase_closed lam d m n : phR lam d (clamp RO (root RO lam m n)) = phaseR lam d m n.
Proof. rewrite clamp_Rmax. unfold phR, phase, phaseR, root; cbn. unfold Rdiv. ring. Qed.
Lemma G1_closed lam gf d m n : G1r false lam gf d m n = G1R lam gf d m n.
Proof.
  unfold G1r, G1; cbv zeta. rewrite clamp_mask_vacuous. fold phR. destruct gf as [f|].
  - rewrite !phase_closed. reflexivity.
  - rewrite phase_closed. reflexivity.
Qed.
Lemma Gpt_closed_lemma lam cfsp gf d m n : Gptr false lam cfsp gf d m n = GptR lam cfsp gf d m n.
Proof.
  unfold Gptr, Gpt, GptR. destruct cfsp as [|k]; [apply G1_closed|]. fold G1r. rewrite G1_closed. reflexivity.
Qed.

(** Q instance vs R instance *)
Lemma Q2R_inv' (q : Q) : Q2R (/ q) = / Q2R q.
Proof.
  destruct (Qeq_dec q 0) as [E|E].
  - assert (E2 : (/ q == 0)%Q) by (rewrite E; reflexivity).
    rewrite (Qeq_eqR _ _ E2), (Qeq_eqR _ _ E). rewrite Q2R_0, Rinv_0. reflexivity.
  - apply Q2R_inv. exact E.
Qed.
Definition cQ2R (z : cx Q) : cx R := (Q2R (fst z), Q2R (snd z)).
Definition imgQ2R (a : img Q) : img R := map (map cQ2R) a.
Lemma cmul_Q_R a b : cQ2R (cmul QO a b) = cmul RO (cQ2R a) (cQ2R b).
Proof. destruct a, b. unfold cQ2R, cmul; cbn. apply cx_eq; q2r. Qed.
Lemma cadd_Q_R a b : cQ2R (cadd QO a b) = cadd RO (cQ2R a) (cQ2R b).
Proof. destruct a, b. unfold cQ2R, cadd; cbn. apply cx_eq; q2r. Qed.
Lemma map_zipw {A B C A' B' C'} (f : A -> B -> C) (f' : A' -> B' -> C') ha hb hc :
  (forall x y, hc (f x y) = f' (ha x) (hb y)) ->
  forall a b, map hc (zipw f a b) = zipw f' (map ha a) (map hb b).
Proof. intros H a. induction a as [|x a IH]; intros [|y b]; simpl; try reflexivity. rewrite H, IH. reflexivity. Qed.
Lemma pmul_Q_R a g : imgQ2R (pmul QO a g) = pmul RO (imgQ2R a) (imgQ2R g).
Proof. unfold imgQ2R, pmul. apply map_zipw. intros. apply map_zipw. apply cmul_Q_R. Qed.
Lemma prop1_Q_R (FQ FinvQ : img Q -> img Q) (FR FinvR : img R -> img R) :
  (forall x, imgQ2R (FQ x) = FR (imgQ2R x)) -> (forall y, imgQ2R (FinvQ y) = FinvR (imgQ2R y)) ->
  forall g v, imgQ2R (prop1 QO FQ FinvQ g v) = prop1 RO FR FinvR (imgQ2R g) (imgQ2R v).
Proof.
  intros HF HI g v. unfold prop1, ifft_m, fft_m. rewrite HI. f_equal.
  unfold imgQ2R at 1. rewrite <- ifftshift2_map_map. f_equal. fold (imgQ2R (pmul QO (fftshift2 (FQ v)) g)).
  rewrite pmul_Q_R. f_equal. unfold imgQ2R at 1. rewrite <- fftshift2_map_map. f_equal. apply HF.
Qed.

Lemma nth_Q2R n (c : list Q) : Q2R (nth n c 0%Q) = nth n (map Q2R c) 0%R.
Proof. rewrite <- Q2R_0. symmetry. apply map_nth. Qed.
Lemma spacing_Q_R c : Q2R (spacing QO c) = spacing RO (map Q2R c).
Proof. unfold spacing. cbn [sub zero QO RO]. rewrite Q2R_minus, !nth_Q2R. reflexivity. Qed.
Lemma linspace_Q_R a b n : map Q2R (linspace QO a b n) = linspace RO (Q2R a) (Q2R b) n.
Proof.
  unfold linspace. rewrite map_map. apply map_ext. intros i.
  cbn [add mul sub inv ofZ QO RO]. rewrite Q2R_plus, !Q2R_mult, Q2R_inv', Q2R_minus, !Q2R_inject_Z. reflexivity.
Qed.
Lemma ft_coord_Q_R c : map Q2R (ft_coord QO c) = ft_coord RO (map Q2R c).
Proof.
  unfold ft_coord. rewrite linspace_Q_R, map_length, <- spacing_Q_R.
  cbn [add mul sub opp inv one ofZ QO RO].
  rewrite !Q2R_opp, !Q2R_mult, !Q2R_inv', !Q2R_mult, Q2R_plus, Q2R_1, !Q2R_inject_Z. reflexivity.
Qed.
Lemma ift_coord_Q_R c : map Q2R (ift_coord QO c) = ift_coord RO (map Q2R c).
Proof.
  unfold ift_coord. rewrite linspace_Q_R, map_length, <- spacing_Q_R.
  cbn [add mul sub opp inv one zero ofZ QO RO].
  rewrite !Q2R_mult, !Q2R_inv', !Q2R_mult, Q2R_0, !Q2R_inject_Z. reflexivity.
Qed.

(* ------------------------------------------------------------------------------------------ *)
(** * 6. coarse sampling, full propagate link *)
(** coarse sampling: no spatial frequency is evanescent *)
Lemma In_zrange_from i z n : In i (zrange_from z n) -> (z <= i < z + Z.of_nat n)%Z.
Proof.
  revert z. induction n as [|n IH]; intros z H; simpl in H; [contradiction|].
  destruct H as [<-|H]; [lia|]. apply IH in H. lia.
Qed.
Lemma ft_coord_bound c0 s n m : (2 <= n)%nat -> s <> 0 -> In m (ft_coord RO (ucoord c0 s n)) ->
  m * m <= / (4 * (s * s)).
Proof.
  intros Hn Hs H. rewrite ft_coord_closed in H by assumption. unfold ucoord in H.
  apply in_map_iff in H. destruct H as [i [<- Hi]]. apply In_zrange_from in Hi.
  destruct (dim_facts n Hn) as [_ Hd1]. set (N1 := IZR (Z.of_nat n - 1)) in *.
  assert (HN1 : 0 < N1) by (unfold N1; apply IZR_lt; lia).
  assert (Hi0 : 0 <= IZR i) by (apply IZR_le; lia).
  assert (Hi1 : IZR i <= N1) by (unfold N1; apply IZR_le; lia).
  set (t := IZR i * / N1).
  assert (Ht0 : 0 <= t) by (unfold t; apply Rmult_le_pos; [lra|left; apply Rinv_0_lt_compat; lra]).
  assert (Ht1 : t <= 1).
  { unfold t. apply (Rmult_le_reg_r N1); [lra|]. rewrite Rmult_assoc, Rinv_l by lra. lra. }
  set (is := / s).
  assert (E1 : - / (2 * s) + IZR i * / (s * N1) = is * (t - / 2)) by (unfold is, t; field; split; lra).
  assert (E2 : / (4 * (s * s)) = is * is * / 4) by (unfold is; field; lra).
  rewrite E1, E2.
  assert (0 <= is * is) by nra.
  assert (0 <= t * (1 - t)) by (apply Rmult_le_pos; lra).
  assert (0 <= (is * is) * (t * (1 - t))) by (apply Rmult_le_pos; assumption).
  nra.
Qed.
Lemma coarse_no_evanescent lam cx sx nx cy sy ny : (2 <= nx)%nat -> (2 <= ny)%nat -> sx <> 0 -> sy <> 0 ->
  lam * lam * (/ (4 * (sx * sx)) + / (4 * (sy * sy))) <= 1 ->
  no_evanescent lam (ucoord cx sx nx) (ucoord cy sy ny).
Proof.
  intros Hx Hy Hsx Hsy H m n Hm Hn.
  apply ft_coord_bound in Hm; [|assumption|assumption]. apply ft_coord_bound in Hn; [|assumption|assumption].
  unfold root; cbn [sub mul one RO].
  set (Bx := / (4 * (sx * sx))) in *. set (By := / (4 * (sy * sy))) in *.
  assert (0 <= lam * lam) by nra.
  assert (0 <= lam * lam * (Bx - m * m)) by (apply Rmult_le_pos; lra).
  assert (0 <= lam * lam * (By - n * n)) by (apply Rmult_le_pos; lra).
  nra.
Qed.

(** full link for propagate: the Q instance run by the check and the R instance of the theorems agree,
    given oracles that commute with the embedding Q -> R *)
Definition optQ2R (o : option Q) : option R := option_map Q2R o.
Definition metaQ2R {X} (m : meta Q X) : meta R X := let '(a, b, x) := m in (optQ2R a, optQ2R b, x).
Definition imageQ2R {X} (im : image Q X) : image R X :=
  let '(xs, ys, v, m) := im in (map Q2R xs, map Q2R ys, imgQ2R v, metaQ2R m).
Lemma upd_Q_R a b : optQ2R (upd a b) = upd (optQ2R a) (optQ2R b).
Proof. destruct a; reflexivity. Qed.
Lemma update_meta_Q_R {X} mi wl (m : meta Q X) :
  metaQ2R (update_meta mi wl m) = update_meta (optQ2R mi) (optQ2R wl) (metaQ2R m).
Proof. destruct m as [[a b] x]. unfold update_meta, metaQ2R. rewrite !upd_Q_R. reflexivity. Qed.
Lemma med_wavelen_Q_R {X} (m : meta Q X) : optQ2R (med_wavelen QO m) = med_wavelen RO (metaQ2R m).
Proof.
  destruct m as [[[a|] [b|]] x]; try reflexivity. unfold med_wavelen, metaQ2R, optQ2R; simpl option_map.
  cbn [mul inv QO RO]. rewrite Q2R_mult, Q2R_inv'. reflexivity.
Qed.
Lemma propagate_Q_R {X} (FQ FinvQ : img Q -> img Q) (FR FinvR : img R -> img R) gQ gR :
  (forall x, imgQ2R (FQ x) = FR (imgQ2R x)) -> (forall y, imgQ2R (FinvQ y) = FinvR (imgQ2R y)) ->
  (forall lam cfsp gf xs ys d, imgQ2R (gQ lam cfsp gf xs ys d)
                               = gR (Q2R lam) cfsp (optQ2R gf) (map Q2R xs) (map Q2R ys) (Q2R d)) ->
  forall (im : image Q X) d mi wl cfsp gf,
  option_map imageQ2R (propagate QO FQ FinvQ gQ im d mi wl cfsp gf)
  = propagate RO FR FinvR gR (imageQ2R im) (Q2R d) (optQ2R mi) (optQ2R wl) cfsp (optQ2R gf).
Proof.
  intros HF HI HG [[[xs ys] v] m] d mi wl cfsp gf. unfold propagate.
  cbn [eqb zero QO RO]. rewrite Qeqb_Reqb, Q2R_0.
  destruct (Reqb (Q2R d) 0); [reflexivity|].
  cbn [imageQ2R]. rewrite <- update_meta_Q_R, <- med_wavelen_Q_R.
  destruct (med_wavelen QO (update_meta mi wl m)) as [lam|]; [|reflexivity].
  simpl. rewrite (prop1_Q_R FQ FinvQ FR FinvR HF HI), HG. reflexivity.
Qed.

Lemma filter_nz_Q_R ds : map Q2R (filter (fun d => negb (eqb QO d (zero QO))) ds)
                         = filter (fun d => negb (eqb RO d (zero RO))) (map Q2R ds).
Proof.
  induction ds as [|d ds IH]; [reflexivity|]. simpl filter. cbn [eqb zero QO RO] in *.
  rewrite Qeqb_Reqb, Q2R_0. destruct (Reqb (Q2R d) 0); simpl; rewrite IH; reflexivity.
Qed.
Lemma existsb_z_Q_R ds : existsb (fun d => eqb QO d (zero QO)) ds = existsb (fun d => eqb RO d (zero RO)) (map Q2R ds).
Proof.
  induction ds as [|d ds IH]; [reflexivity|]. simpl. cbn [eqb zero QO RO] in *.
  rewrite Qeqb_Reqb, Q2R_0, IH. reflexivity.
Qed.
Definition stackQ2R {X} (r : list Q * list Q * list (Q * img Q) * meta Q X) : list R * list R * list (R * img R) * meta R X :=
  let '(xs, ys, sl, m) := r in
  (map Q2R xs, map Q2R ys, map (fun e => (Q2R (fst e), imgQ2R (snd e))) sl, metaQ2R m).
Lemma propagate_list_Q_R {X} (FQ FinvQ : img Q -> img Q) (FR FinvR : img R -> img R) gQ gR :
  (forall x, imgQ2R (FQ x) = FR (imgQ2R x)) -> (forall y, imgQ2R (FinvQ y) = FinvR (imgQ2R y)) ->
  (forall lam cfsp gf xs ys d, imgQ2R (gQ lam cfsp gf xs ys d)
                               = gR (Q2R lam) cfsp (optQ2R gf) (map Q2R xs) (map Q2R ys) (Q2R d)) ->
  forall (im : image Q X) z0 ds mi wl cfsp gf,
  option_map stackQ2R (propagate_list QO FQ FinvQ gQ im z0 ds mi wl cfsp gf)
  = propagate_list RO FR FinvR gR (imageQ2R im) (Q2R z0) (map Q2R ds) (optQ2R mi) (optQ2R wl) cfsp (optQ2R gf).
Proof.
  intros HF HI HG [[[xs ys] v] m] z0 ds mi wl cfsp gf. unfold propagate_list.
  cbn [imageQ2R]. rewrite <- update_meta_Q_R, <- med_wavelen_Q_R.
  destruct (med_wavelen QO (update_meta mi wl m)) as [lam|]; [|reflexivity].
  simpl option_map. unfold stackQ2R. rewrite <- filter_nz_Q_R, <- existsb_z_Q_R.
  assert (E : map (fun e : Q * img Q => (Q2R (fst e), imgQ2R (snd e)))
                (map (fun d => (d, prop1 QO FQ FinvQ (gQ lam cfsp gf xs ys d) v))
                   (filter (fun d => negb (eqb QO d (zero QO))) ds))
              = map (fun d => (d, prop1 RO FR FinvR (gR (Q2R lam) cfsp (optQ2R gf) (map Q2R xs) (map Q2R ys) d) (imgQ2R v)))
                  (map Q2R (filter (fun d => negb (eqb QO d (zero QO))) ds))).
  { rewrite !map_map. apply map_ext. intros d. simpl. rewrite (prop1_Q_R FQ FinvQ FR FinvR HF HI), HG. reflexivity. }
  cbn [optQ2R option_map]. cbn [eqb zero QO] in E |- *.
  destruct (existsb (fun d => Qeq_bool d 0) ds); simpl map; rewrite E; reflexivity.
Qed.

(** the inverse-pair theorems hold at every carrier (the check executes them at Q and at Z labels) *)
Lemma ifft_fft_id_poly {T} (F Finv : img T -> img T) : (forall x, Finv (F x) = x) -> forall x, ifft_m Finv (fft_m F x) = x.
Proof. intros H x. unfold ifft_m, fft_m. rewrite ifftshift2_fftshift2. apply H. Qed.
Lemma fft_ifft_id_poly {T} (F Finv : img T -> img T) : (forall y, F (Finv y) = y) -> forall y, fft_m F (ifft_m Finv y) = y.
Proof. intros H y. unfold ifft_m, fft_m. rewrite H. apply fftshift2_ifftshift2. Qed.

(** C17 - FFT pair and propagation.  Executable model (no proofs here).
    Anchors: core/process/fourier.py (fft, ifft, ft_coord, ift_coord, transform_metadata),
    propagation/convolution_propagation.py (propagate, trans_func), core/metadata.py
    (update_metadata, copy_metadata).

    Oracles (never re-implemented): the unshifted DFT pair [F]/[Finv] (numpy fft2/ifft2),
    [pi], [sqrtf], [cosf], [sinf].  They are Section variables; the theorems put explicit
    hypotheses on them, the correspondence check feeds the implementation's own primitive values. *)
From Coq Require Import ZArith List Bool.
From HV Require Import Common.Generic.
Import ListNotations.

(** * index shuffles: numpy.fft.fftshift / ifftshift on one axis are list rotations *)
Section Shift.
Context {A : Type}.
Definition rotl (k : nat) (l : list A) : list A := skipn k l ++ firstn k l.
(** fftshift: roll by +n//2, i.e. out[(i + n/2) mod n] = in[i]  ==  rotate left by n - n/2 *)
Definition fftshift1 (l : list A) : list A := rotl (length l - length l / 2) l.
(** ifftshift: roll by -(n//2)  ==  rotate left by n/2 *)
Definition ifftshift1 (l : list A) : list A := rotl (length l / 2) l.
End Shift.
(** 2-D (axes x,y of an image; rows = x): both axes are rolled *)
Definition fftshift2 {A} (x : list (list A)) : list (list A) := map fftshift1 (fftshift1 x).
Definition ifftshift2 {A} (x : list (list A)) : list (list A) := map ifftshift1 (ifftshift1 x).
(** where input element i ends up *)
Definition fftshift_idx (n i : nat) : nat := (i + n / 2) mod n.
Definition ifftshift_idx (n i : nat) : nat := (i + (n - n / 2)) mod n.

Fixpoint zipw {A B C} (f : A -> B -> C) (a : list A) (b : list B) : list C :=
  match a, b with x :: a', y :: b' => f x y :: zipw f a' b' | _, _ => [] end.
Fixpoint zrange_from (i : Z) (n : nat) : list Z :=
  match n with O => [] | S k => i :: zrange_from (i + 1) k end.

Section Gen.
Context {T : Type} (O : Ops T).
Declare Scope t_scope. Delimit Scope t_scope with t.
Local Notation "x + y" := (add O x y) : t_scope. Local Notation "x * y" := (mul O x y) : t_scope.
Local Notation "x - y" := (sub O x y) : t_scope. Local Notation "- x" := (opp O x) : t_scope.
Local Notation "x / y" := (mul O x (inv O y)) : t_scope.
Local Notation "x <=? y" := (leb O x y) : t_scope. Local Notation "x =? y" := (eqb O x y) : t_scope.
Local Notation "0" := (zero O) : t_scope. Local Notation "1" := (one O) : t_scope.
Local Notation "2" := (add O (one O) (one O)) : t_scope.
Local Open Scope t_scope.

(** complex numbers are pairs over the carrier *)
Definition cx : Type := (T * T)%type.
Definition c0 : cx := (0, 0).
Definition c1 : cx := (1, 0).
Definition cadd (a b : cx) : cx := (fst a + fst b, snd a + snd b).
Definition csub (a b : cx) : cx := (fst a - fst b, snd a - snd b).
Definition cmul (a b : cx) : cx := (fst a * fst b - snd a * snd b, fst a * snd b + snd a * fst b).
Fixpoint cpow (z : cx) (k : nat) : cx := match k with 0%nat => c1 | S k' => cmul z (cpow z k') end.
Definition cnorm2 (a : cx) : T := fst a * fst a + snd a * snd a.

Definition img : Type := list (list cx).
Definition img_add (a b : img) : img := zipw (zipw cadd) a b.
Definition img_scale (k : cx) (a : img) : img := map (map (cmul k)) a.
Definition pmul (a g : img) : img := zipw (zipw cmul) a g.
Definition row_energy (r : list cx) : T := fold_right (fun z acc => cnorm2 z + acc) 0 r.
Definition energy (a : img) : T := fold_right (fun r acc => row_energy r + acc) 0 a.

(** * coordinates.  numpy.linspace(a, b, n): a + i * ((b - a) / (n - 1)), i = 0..n-1 *)
Definition linspace (a b : T) (n : nat) : list T :=
  let step := (b - a) / ofZ O (Z.of_nat n - 1) in
  map (fun i => a + ofZ O i * step) (zrange_from 0 n).
(** get_spacing: np.diff(c)[0] (the uniformity test only raises, it never changes the value) *)
Definition spacing (c : list T) : T := nth 1 c 0 - nth 0 c 0.
(** ft_coord: ext = spacing*dim; linspace(-dim/(2 ext), dim/(2 ext), dim) *)
Definition ft_coord (c : list T) : list T :=
  let dim := ofZ O (Z.of_nat (length c)) in let ext := spacing c * dim in
  linspace (- (dim / (2 * ext))) (dim / (2 * ext)) (length c).
(** ift_coord: linspace(0, dim/ext, dim) -- origin 0 whatever the input origin was *)
Definition ift_coord (c : list T) : list T :=
  let dim := ofZ O (Z.of_nat (length c)) in let ext := spacing c * dim in
  linspace 0 (dim / ext) (length c).

(** * trans_func *)
Section Trans.
Variables (pi : T) (sqrtf cosf sinf : T -> T).
(** root = 1+0j - (lam n)^2 - (lam m)^2 *)
Definition root (lam m n : T) : T := 1 - (lam * n) * (lam * n) - (lam * m) * (lam * m).
(** root *= (root >= 0) *)
Definition clamp (r : T) : T := if 0 <=? r then r else 0.
(** exp(-1j * th) *)
Definition cis_neg (th : T) : cx := (cosf th, - sinf th).
(** 2 pi d / lam * sqrt(root) *)
Definition phase (lam d r : T) : T := 2 * pi * d / lam * sqrtf r.
(** one transfer-function value at frequencies (m, n).
    [evan0 = false] is the code as it is: the mask [g * (root >= 0)] is applied to the ALREADY
    clamped root, so it is vacuous and G = 1 (g = 0 with a gradient filter) at evanescent
    frequencies.  [evan0 = true] is what the comment in the code describes (mask on the unclamped
    root, G = 0 there).  The theorems hold for both; the correspondence pins [false]. *)
Definition G1 (evan0 : bool) (lam : T) (gf : option T) (d m n : T) : cx :=
  let r0 := root lam m n in
  let r := clamp r0 in
  let g := cis_neg (phase lam d r) in
  let g := match gf with Some f => csub g (cis_neg (phase lam (d + f) r)) | None => g end in
  if (if evan0 then 0 <=? r0 else 0 <=? r) then g else c0.
(** cfsp > 0: d := d / cfsp ... g := g ** cfsp *)
Definition Gpt (evan0 : bool) (lam : T) (cfsp : nat) (gf : option T) (d m n : T) : cx :=
  match cfsp with
  | 0%nat => G1 evan0 lam gf d m n
  | S _ => cpow (G1 evan0 lam gf (d / ofZ O (Z.of_nat cfsp)) m n) cfsp
  end.
(** the grid that multiplies fft(data).squeeze('z') (dims m = ft_coord x, n = ft_coord y) *)
Definition Ggrid (evan0 : bool) (lam : T) (cfsp : nat) (gf : option T) (xs ys : list T) (d : T) : img :=
  map (fun m => map (fun n => Gpt evan0 lam cfsp gf d m n) (ft_coord ys)) (ft_coord xs).
End Trans.

(** * fft / ifft / propagate over the oracle DFT pair *)
Section Propag.
Variables F Finv : img -> img.
Definition fft_m (x : img) : img := fftshift2 (F x).
Definition ifft_m (y : img) : img := Finv (ifftshift2 y).
(** the version the code had before commit 46ec98b (kept for Findings.v) *)
Definition ifft_m_double_shift (y : img) : img := Finv (fftshift2 y).
Definition prop1 (g : img) (v : img) : img := ifft_m (pmul (fft_m v) g).

(** metadata: (medium_index, illum_wavelen, everything else incl. name) *)
Definition meta (X : Type) : Type := (option T * option T * X)%type.
Definition upd (new old : option T) : option T := match new with Some v => Some v | None => old end.
Definition update_meta {X} (mi wl : option T) (m : meta X) : meta X :=
  let '(mi0, wl0, x) := m in (upd mi mi0, upd wl wl0, x).
Definition med_wavelen {X} (m : meta X) : option T :=
  match m with (Some mi, Some wl, _) => Some (wl / mi) | _ => None end.

(** image = (x coords, y coords, values, metadata) *)
Definition image (X : Type) : Type := (list T * list T * img * meta X)%type.

(** the transfer-function grid enters as a function so that the executed instance can take the
    implementation's own trans_func values (it contains cos/sin); the theorems instantiate it
    with [Ggrid]. Arguments: lam cfsp gf xs ys d *)
Variable gridf : T -> nat -> option T -> list T -> list T -> T -> img.

(** propagate with a scalar distance.  None = MissingParameter *)
Definition propagate {X} (im : image X) (d : T) (mi wl : option T) (cfsp : nat) (gf : option T)
  : option (image X) :=
  if d =? 0 then Some im                     (* shortcut BEFORE update_metadata: the input itself *)
  else
    let '(xs, ys, v, m) := im in
    let m' := update_meta mi wl m in
    match med_wavelen m' with
    | None => None
    | Some lam => Some (xs, ys, prop1 (gridf lam cfsp gf xs ys d) v, m')
    end.

(** propagate with a list of distances: zeros are deleted from the list, the remaining distances
    give one slice each (label z = d); if a zero was present ONE copy of the input is prepended
    (label = the input's own z coordinate [z0]).  Result: coords, labelled slices, metadata. *)
Definition propagate_list {X} (im : image X) (z0 : T) (ds : list T) (mi wl : option T) (cfsp : nat)
  (gf : option T) : option (list T * list T * list (T * img) * meta X) :=
  let '(xs, ys, v, m) := im in
  let m' := update_meta mi wl m in
  match med_wavelen m' with
  | None => None
  | Some lam =>
    let nz := filter (fun d => negb (d =? 0)) ds in
    let res := map (fun d => (d, prop1 (gridf lam cfsp gf xs ys d) v)) nz in
    Some (xs, ys, (if existsb (fun d => d =? 0) ds then (z0, v) :: res else res), m')
  end.
End Propag.
End Gen.

Arguments cx T : clear implicits. Arguments img T : clear implicits.
Arguments meta T X : clear implicits. Arguments image T X : clear implicits.

(** * closed real form of one transfer-function value (what Coq-Interval evaluates in the
    correspondence check; Lemmas.Gpt_closed proves it equal to [Gpt RO PI sqrt cos sin false]) *)
From Coq Require Import Reals.
Definition phaseR (lam d m n : R) : R :=
  (2 * PI * d / lam * sqrt (Rmax 0 (1 - (lam * n) * (lam * n) - (lam * m) * (lam * m))))%R.
Definition G1R (lam : R) (gf : option R) (d m n : R) : R * R :=
  match gf with
  | None => (cos (phaseR lam d m n), - sin (phaseR lam d m n))%R
  | Some f => (cos (phaseR lam d m n) - cos (phaseR lam (d + f) m n),
               - sin (phaseR lam d m n) - - sin (phaseR lam (d + f) m n))%R
  end.
Definition GptR (lam : R) (cfsp : nat) (gf : option R) (d m n : R) : R * R :=
  match cfsp with
  | 0%nat => G1R lam gf d m n
  | S _ => cpow RO (G1R lam gf (d / IZR (Z.of_nat cfsp)) m n) cfsp
  end.

(** comparison helpers for the generated correspondence files (Q instance) *)
From Coq Require Import QArith.
Definition Qabs' (x : Q) : Q := if Qle_bool 0 x then x else Qopp x.
Definition qabsclose (tol a b : Q) : bool := Qle_bool (Qabs' (a - b)) tol.
Fixpoint list_all2 {A B} (e : A -> B -> bool) (a : list A) (b : list B) : bool :=
  match a, b with [], [] => true | x :: a', y :: b' => e x y && list_all2 e a' b' | _, _ => false end.
Definition cclose (tol : Q) (a b : cx Q) : bool := qabsclose tol (fst a) (fst b) && qabsclose tol (snd a) (snd b).
Definition img_close (tol : Q) (a b : img Q) : bool := list_all2 (list_all2 (cclose tol)) a b.
Definition qlist_absclose (tol : Q) (a b : list Q) : bool := list_all2 (qabsclose tol) a b.
Definition lookup (tab : list (Q * img Q)) (d : Q) : img Q :=
  match find (fun e => Qeq_bool (fst e) d) tab with Some e => snd e | None => [] end.

(** C17 - models of defective variants with witnesses (historical: fixed in /repo by commit 46ec98b
    "fix: ifft undid fft's fftshift with another fftshift ...").  Before the fix, [ifft] was
    [Finv o fftshift2] ([ifft_m_double_shift] in Model.v) instead of [Finv o ifftshift2].
    Dependency order: Model -> Findings -> Lemmas -> Props (so the few rotation lemmas the witnesses
    need are proved here and reused by Lemmas.v). *)
From Coq Require Import ZArith List Bool Arith Lia QArith.
From HV Require Import Common.Generic C17.Model.
Import ListNotations.

Section Rot.
Context {A : Type}.
Implicit Types l : list A.

Lemma rotl_length k l : length (rotl k l) = length l.
Proof. unfold rotl. rewrite app_length, skipn_length, firstn_length. lia. Qed.

Lemma rotl_rotl j k l : (j + k = length l)%nat -> rotl k (rotl j l) = l.
Proof.
  intros Hs. unfold rotl.
  assert (Hlen : length (skipn j l) = k) by (rewrite skipn_length; lia).
  rewrite skipn_app, firstn_app, Hlen.
  rewrite (skipn_all2 (skipn j l)) by lia. rewrite Nat.sub_diag. simpl.
  rewrite (firstn_all2 (skipn j l)) by lia. simpl. rewrite app_nil_r.
  apply firstn_skipn.
Qed.

Lemma half_le (n : nat) : (n / 2 <= n)%nat.
Proof. apply Nat.div_le_upper_bound; lia. Qed.

Lemma fftshift1_length l : length (fftshift1 l) = length l.
Proof. apply rotl_length. Qed.
Lemma nth_skipn' k l i d : nth i (skipn k l) d = nth (k + i) l d.
Proof. revert l. induction k as [|k IH]; intros l; [reflexivity|].
  destruct l as [|x t]; simpl; [destruct i; reflexivity|apply IH]. Qed.
Lemma nth_firstn' k l i d : (i < k)%nat -> nth i (firstn k l) d = nth i l d.
Proof. revert l i. induction k as [|k IH]; intros l i H; [lia|].
  destruct l as [|x t]; simpl; [reflexivity|]. destruct i; [reflexivity|]. apply IH. lia. Qed.

(** where an element goes: rotl k reads position (i + k) mod n *)
Lemma rotl_nth k l i d : (k <= length l)%nat -> (i < length l)%nat ->
  nth i (rotl k l) d = nth ((i + k) mod length l) l d.
Proof.
  intros Hk Hi. unfold rotl.
  assert (Hs : length (skipn k l) = (length l - k)%nat) by apply skipn_length.
  destruct (Nat.lt_ge_cases i (length l - k)) as [H|H].
  - rewrite app_nth1 by lia. rewrite Nat.mod_small by lia.
    rewrite nth_skipn'. f_equal. lia.
  - rewrite app_nth2 by lia. rewrite Hs.
    assert (E : ((i + k) mod length l = i + k - length l)%nat).
    { replace (i + k)%nat with ((i + k - length l) + 1 * length l)%nat at 1 by lia.
      rewrite Nat.mod_add by lia. rewrite Nat.mod_small by lia. lia. }
    rewrite E. rewrite nth_firstn' by lia. f_equal. lia.
Qed.

End Rot.

(** the historical defect: undoing fftshift with a second fftshift fails for EVERY odd length >= 3 *)
Lemma seq_nth' len start n : (n < len)%nat -> nth n (seq start len) 0%nat = (start + n)%nat.
Proof. intros. apply seq_nth. assumption. Qed.

Lemma double_fftshift_odd (k : nat) :
  fftshift1 (fftshift1 (seq 0 (2 * k + 3))) <> seq 0 (2 * k + 3).
Proof.
  set (n := (2 * k + 3)%nat). set (l := seq 0 n).
  assert (Hl : length l = n) by apply seq_length.
  assert (Hdiv : (n / 2 = k + 1)%nat).
  { unfold n. replace (2 * k + 3)%nat with (1 + (k + 1) * 2)%nat by lia.
    rewrite Nat.div_add by lia. reflexivity. }
  assert (E2 : fftshift1 (fftshift1 l) = rotl (n - n / 2) (rotl (n - n / 2) l)).
  { unfold fftshift1. rewrite rotl_length, Hl. reflexivity. }
  intros E. rewrite E2 in E. apply (f_equal (fun l => nth 0 l 0%nat)) in E.
  rewrite rotl_nth in E by (rewrite rotl_length, Hl; lia). rewrite rotl_length, Hl in E.
  rewrite rotl_nth in E by (rewrite Hl; first [lia|apply Nat.mod_upper_bound; lia]). rewrite Hl in E.
  rewrite Nat.add_mod_idemp_l in E by lia. rewrite Hdiv in E.
  replace (0 + (n - (k + 1)) + (n - (k + 1)))%nat with (1 + 1 * n)%nat in E by lia.
  rewrite Nat.mod_add in E by lia. rewrite Nat.mod_small in E by lia.
  unfold l in E. rewrite !seq_nth' in E by lia. discriminate.
Qed.

(** ... and is harmless for every even length (why the single even-sized test passed) *)
Lemma double_fftshift_even {A} (l : list A) : Nat.even (length l) = true -> fftshift1 (fftshift1 l) = l.
Proof.
  intros He. apply Nat.even_spec in He. destruct He as [h Hh].
  unfold fftshift1 at 1. rewrite fftshift1_length. unfold fftshift1. apply rotl_rotl.
  rewrite Hh. replace (2 * h)%nat with (h * 2)%nat by lia. rewrite Nat.div_mul by lia. lia.
Qed.

(** fftshift o fftshift <> id for EVERY odd length n = 2k+3 >= 3 (all lengths, not an enumeration) *)
Theorem double_fftshift_refuted : forall k : nat,
  exists l : list nat, length l = (2 * k + 3)%nat /\ fftshift1 (fftshift1 l) <> l.
Proof.
  intros k. exists (seq 0 (2 * k + 3)). split; [apply seq_length|apply double_fftshift_odd].
Qed.

(** ... while for every even length it IS the identity: the single even-sized unit test could not see it *)
Theorem double_fftshift_even_hides_it : forall (A : Type) (l : list A),
  Nat.even (length l) = true -> fftshift1 (fftshift1 l) = l.
Proof. exact @double_fftshift_even. Qed.

(** the old ifft: even with a perfect inverse pair F, Finv the round trip fails on a 1 x 3 image *)
Theorem old_ifft_roundtrip_refuted :
  exists (F Finv : img Q -> img Q) (x : img Q),
    (forall y, Finv (F y) = y) /\ ifft_m_double_shift Finv (fft_m F x) <> x.
Proof.
  exists (fun y => y), (fun y => y), [[(1, 0); (2, 0); (3, 0)]]%Q.
  split; [reflexivity|]. vm_compute. discriminate.
Qed.

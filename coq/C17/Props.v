From HV Require Import Common.Generic C17.Model.

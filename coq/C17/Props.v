(** C17 property theorems: statements only; proofs are in Lemmas.v.
    Index shuffles (fftshift / ifftshift) have no carrier: the definitions proved about are literally the
    ones the correspondence check executes.  Numeric parts are stated at the R instance ([RO], with the real
    pi / sqrt / cos / sin as the transcendental oracles and an arbitrary pair [F], [Finv] as the DFT oracle);
    the last block proves that what the check executes (Q instance; closed real form fed to Coq-Interval)
    computes the same functions. *)
From Coq Require Import ZArith List Bool Arith Lia Reals Lra QArith Qreals.
From HV Require Import Common.Generic C17.Model C17.Lemmas C17.Findings.
Import ListNotations.
Local Open Scope R_scope.

(** ** the shift pair, every length / every shape *)
Theorem ifftshift_fftshift : forall (A : Type) (l : list A), ifftshift1 (fftshift1 l) = l.
Proof. exact @ifftshift1_fftshift1. Qed.
Print Assumptions ifftshift_fftshift.

Theorem fftshift_ifftshift : forall (A : Type) (l : list A), fftshift1 (ifftshift1 l) = l.
Proof. exact @fftshift1_ifftshift1. Qed.
Print Assumptions fftshift_ifftshift.

(* any number of rows, any row lengths (even / odd / non-square / ragged) *)
Theorem ifftshift_fftshift_2d : forall (A : Type) (x : list (list A)), ifftshift2 (fftshift2 x) = x.
Proof. exact @ifftshift2_fftshift2. Qed.
Print Assumptions ifftshift_fftshift_2d.

Theorem fftshift_ifftshift_2d : forall (A : Type) (x : list (list A)), fftshift2 (ifftshift2 x) = x.
Proof. exact @fftshift2_ifftshift2. Qed.
Print Assumptions fftshift_ifftshift_2d.

(* numpy's documented index map: element i goes to (i + n/2) mod n; inverse: (i + ceil(n/2)) mod n *)
Theorem fftshift_index_map : forall (A : Type) (l : list A) i d, (i < length l)%nat ->
  nth (fftshift_idx (length l) i) (fftshift1 l) d = nth i l d /\
  nth (ifftshift_idx (length l) i) (ifftshift1 l) d = nth i l d.
Proof. intros. split; [apply fftshift1_moves|apply ifftshift1_moves]; assumption. Qed.
Print Assumptions fftshift_index_map.

Theorem fftshift_index_map_2d : forall (A : Type) (x : list (list A)) i j d,
  (i < length x)%nat -> (j < length (nth i x []))%nat ->
  nth (fftshift_idx (length (nth i x [])) j) (nth (fftshift_idx (length x) i) (fftshift2 x) []) d
  = nth j (nth i x []) d.
Proof. exact @fftshift2_moves. Qed.
Print Assumptions fftshift_index_map_2d.

(** ** fft / ifft are inverses, given that the unshifted oracle pair is (any carrier: R, the executed Q, Z labels) *)
Theorem ifft_fft_id : forall (T : Type) (F Finv : img T -> img T),
  (forall x, Finv (F x) = x) -> forall x, ifft_m Finv (fft_m F x) = x.
Proof. exact @ifft_fft_id_poly. Qed.
Print Assumptions ifft_fft_id.

Theorem fft_ifft_id : forall (T : Type) (F Finv : img T -> img T),
  (forall y, F (Finv y) = y) -> forall y, fft_m F (ifft_m Finv y) = y.
Proof. exact @fft_ifft_id_poly. Qed.
Print Assumptions fft_ifft_id.

(** ** coordinates: for uniformly spaced pixels (origin c0, spacing s <> 0, n >= 2) the round trip returns the
    coordinates relative to the first pixel (ift_coord always starts at 0) *)
Theorem coords_roundtrip : forall c0 s n, (2 <= n)%nat -> s <> 0 ->
  ift_coord RO (ft_coord RO (ucoord c0 s n)) = map (fun x => x - c0) (ucoord c0 s n).
Proof. exact coords_roundtrip_general. Qed.
Print Assumptions coords_roundtrip.

Theorem coords_roundtrip_origin0 : forall s n, (2 <= n)%nat -> s <> 0 ->
  ift_coord RO (ft_coord RO (ucoord 0 s n)) = ucoord 0 s n.
Proof. intros. apply Lemmas.coords_roundtrip_origin0; assumption. Qed.
Print Assumptions coords_roundtrip_origin0.

Theorem ft_coord_symmetric : forall c0 s n, (2 <= n)%nat -> s <> 0 ->
  ft_coord RO (ucoord c0 s n) = ucoord (- / (2 * s)) (/ (s * IZR (Z.of_nat n - 1))) n.
Proof. exact ft_coord_closed. Qed.
Print Assumptions ft_coord_symmetric.

(** ** transfer function, pointwise at every frequency (m, n); [evan0 = false] is the code as it is,
    [true] the masked variant its comment describes: the laws hold for both *)
Theorem G_additive : forall evan0 lam cfsp d1 d2 m n,
  cmul RO (Gptr evan0 lam cfsp None d1 m n) (Gptr evan0 lam cfsp None d2 m n)
  = Gptr evan0 lam cfsp None (d1 + d2) m n.
Proof. exact Gpt_additive. Qed.
Print Assumptions G_additive.

Theorem G_inverse : forall evan0 lam cfsp d m n, evan0 = false \/ 0 <= root RO lam m n ->
  cmul RO (Gptr evan0 lam cfsp None d m n) (Gptr evan0 lam cfsp None (- d) m n) = c1 RO.
Proof. intros. apply Gpt_inverse. apply passes_of. assumption. Qed.
Print Assumptions G_inverse.

Theorem G_norm_le_1 : forall evan0 lam cfsp d m n, cnorm2 RO (Gptr evan0 lam cfsp None d m n) <= 1.
Proof. exact Gpt_norm_le_1. Qed.
Print Assumptions G_norm_le_1.

Theorem cfsp_power : forall evan0 lam k d m n,
  Gptr evan0 lam (S k) None d m n = Gptr evan0 lam 0 None d m n.
Proof. exact cfsp_power_lemma. Qed.
Print Assumptions cfsp_power.

Theorem gradient_filter_is_difference : forall evan0 lam f d m n,
  G1r evan0 lam (Some f) d m n = csub RO (G1r evan0 lam None d m n) (G1r evan0 lam None (d + f) m n).
Proof. exact G1_gf. Qed.
Print Assumptions gradient_filter_is_difference.

(** ** propagate.  [grid evan0] is the transfer-function grid of Model.v at R *)
Definition grid (evan0 : bool) := fun lam cfsp gf xs ys d => Ggridr evan0 lam cfsp gf xs ys d.

Theorem propagate_zero : forall (F Finv : img R -> img R) (X : Type) gridf (im : image R X) mi wl cfsp gf,
  propagate RO F Finv gridf im 0 mi wl cfsp gf = Some im.
Proof. intros. apply propagate_zero_lemma. Qed.
Print Assumptions propagate_zero.

Theorem propagate_additive : forall (F Finv : img R -> img R) (X : Type) evan0, (forall y, F (Finv y) = y) ->
  forall (im im1 : image R X) d1 d2 mi wl cfsp, d1 <> 0 -> d2 <> 0 -> d1 + d2 <> 0 ->
  propagate RO F Finv (grid evan0) im d1 mi wl cfsp None = Some im1 ->
  propagate RO F Finv (grid evan0) im1 d2 mi wl cfsp None
  = propagate RO F Finv (grid evan0) im (d1 + d2) mi wl cfsp None.
Proof. intros F Finv X evan0. exact (propagate_additive_lemma F Finv evan0). Qed.
Print Assumptions propagate_additive.

(* d then -d: with the code's clamp (evan0 = false) always; for the masked variant when no frequency is evanescent *)
Theorem propagate_inverse : forall (F Finv : img R -> img R) (X : Type) evan0,
  (forall x, Finv (F x) = x) -> (forall y, F (Finv y) = y) ->
  forall xs ys v (m : meta R X) v1 m1 d mi wl cfsp, d <> 0 ->
  rect (length xs) (length ys) (F v) ->
  (evan0 = false \/ forall lam, med_wavelen RO (update_meta mi wl m) = Some lam -> no_evanescent lam xs ys) ->
  propagate RO F Finv (grid evan0) (xs, ys, v, m) d mi wl cfsp None = Some (xs, ys, v1, m1) ->
  propagate RO F Finv (grid evan0) (xs, ys, v1, m1) (- d) mi wl cfsp None = Some (xs, ys, v, m1).
Proof. intros F Finv X evan0. exact (propagate_inverse_lemma F Finv evan0). Qed.
Print Assumptions propagate_inverse.

(* "when the sampling is coarse enough": pixel spacings with lam^2 (1/(2 sx)^2 + 1/(2 sy)^2) <= 1 leave no
   evanescent frequency on the grid (so propagate_inverse applies to the masked variant as well) *)
Theorem coarse_sampling_no_evanescent : forall lam cx sx nx cy sy ny,
  (2 <= nx)%nat -> (2 <= ny)%nat -> sx <> 0 -> sy <> 0 ->
  lam * lam * (/ (4 * (sx * sx)) + / (4 * (sy * sy))) <= 1 ->
  no_evanescent lam (ucoord cx sx nx) (ucoord cy sy ny).
Proof. exact coarse_no_evanescent. Qed.
Print Assumptions coarse_sampling_no_evanescent.

(* linear in the image for ANY multiplier grid g of the image's shape, given a linear oracle pair *)
Theorem propagate_linear : forall (F Finv : img R -> img R) r c,
  (forall x y, F (img_add RO x y) = img_add RO (F x) (F y)) ->
  (forall x y, rect r c x -> rect r c y -> Finv (img_add RO x y) = img_add RO (Finv x) (Finv y)) ->
  (forall k x, F (img_scale RO k x) = img_scale RO k (F x)) ->
  (forall k y, Finv (img_scale RO k y) = img_scale RO k (Finv y)) ->
  forall g a b ka kb, rect r c (F a) -> rect r c (F b) -> rect r c g ->
  prop1 RO F Finv g (img_add RO (img_scale RO ka a) (img_scale RO kb b))
  = img_add RO (img_scale RO ka (prop1 RO F Finv g a)) (img_scale RO kb (prop1 RO F Finv g b)).
Proof. exact propagate_linear_lemma. Qed.
Print Assumptions propagate_linear.

(* total energy never increases; Parseval is assumed only at the two images where it is used *)
Theorem energy_nonincreasing : forall (F Finv : img R -> img R) evan0 lam cfsp xs ys d v kap, 0 < kap ->
  let g := Ggridr evan0 lam cfsp None xs ys d in
  energy RO (F v) = kap * energy RO v ->
  kap * energy RO (Finv (ifftshift2 (pmul RO (fft_m F v) g))) = energy RO (ifftshift2 (pmul RO (fft_m F v) g)) ->
  energy RO (prop1 RO F Finv g v) <= energy RO v.
Proof. intros. apply (energy_nonincreasing_lemma F Finv g v kap); try assumption. apply Ggrid_bounded1. Qed.
Print Assumptions energy_nonincreasing.

Theorem list_is_stack : forall (F Finv : img R -> img R) (X : Type) gridf xs ys v (m : meta R X) z0 ds mi wl cfsp gf
  xs' ys' sl m',
  propagate_list RO F Finv gridf (xs, ys, v, m) z0 ds mi wl cfsp gf = Some (xs', ys', sl, m') ->
  exists Vf : R -> img R,
    (forall d, d <> 0 -> propagate RO F Finv gridf (xs, ys, v, m) d mi wl cfsp gf = Some (xs', ys', Vf d, m')) /\
    sl = (if existsb (fun d => Reqb d 0) ds then [(z0, v)] else [])
         ++ map (fun d => (d, Vf d)) (filter (fun d => negb (Reqb d 0)) ds) /\
    xs' = xs /\ ys' = ys /\ m' = update_meta mi wl m.
Proof. intros F Finv X. exact (list_is_stack_lemma F Finv). Qed.
Print Assumptions list_is_stack.

Theorem list_missing_iff_scalar_missing : forall (F Finv : img R -> img R) (X : Type) gridf xs ys v (m : meta R X)
  z0 ds mi wl cfsp gf,
  propagate_list RO F Finv gridf (xs, ys, v, m) z0 ds mi wl cfsp gf = None <->
  (forall d, d <> 0 -> propagate RO F Finv gridf (xs, ys, v, m) d mi wl cfsp gf = None).
Proof. intros F Finv X. exact (list_missing_lemma F Finv). Qed.
Print Assumptions list_missing_iff_scalar_missing.

(* pixel coordinates are kept, metadata = update_metadata(...) of the input's, everything else (name, other attrs) untouched *)
Theorem metadata_kept : forall (F Finv : img R -> img R) (X : Type) gridf xs ys v (m : meta R X) d mi wl cfsp gf
  xs' ys' v' m', d <> 0 ->
  propagate RO F Finv gridf (xs, ys, v, m) d mi wl cfsp gf = Some (xs', ys', v', m') ->
  xs' = xs /\ ys' = ys /\ m' = update_meta mi wl m /\ snd m' = snd m.
Proof. intros F Finv X. exact (propagate_keeps_lemma F Finv). Qed.
Print Assumptions metadata_kept.

(** ** what the check executes = what the theorems are about *)
Theorem closed_form_is_model : forall lam cfsp gf d m n,
  Gpt RO PI sqrt cos sin false lam cfsp gf d m n = GptR lam cfsp gf d m n.
Proof. exact Gpt_closed_lemma. Qed.
Print Assumptions closed_form_is_model.

Theorem prop1_agrees_on_Q : forall (FQ FinvQ : img Q -> img Q) (FR FinvR : img R -> img R),
  (forall x, imgQ2R (FQ x) = FR (imgQ2R x)) -> (forall y, imgQ2R (FinvQ y) = FinvR (imgQ2R y)) ->
  forall g v, imgQ2R (prop1 QO FQ FinvQ g v) = prop1 RO FR FinvR (imgQ2R g) (imgQ2R v).
Proof. exact prop1_Q_R. Qed.
Print Assumptions prop1_agrees_on_Q.

Theorem propagate_agrees_on_Q : forall (X : Type) (FQ FinvQ : img Q -> img Q) (FR FinvR : img R -> img R) gQ gR,
  (forall x, imgQ2R (FQ x) = FR (imgQ2R x)) -> (forall y, imgQ2R (FinvQ y) = FinvR (imgQ2R y)) ->
  (forall lam cfsp gf xs ys d, imgQ2R (gQ lam cfsp gf xs ys d)
                               = gR (Q2R lam) cfsp (optQ2R gf) (map Q2R xs) (map Q2R ys) (Q2R d)) ->
  forall (im : image Q X) d mi wl cfsp gf,
  option_map imageQ2R (propagate QO FQ FinvQ gQ im d mi wl cfsp gf)
  = propagate RO FR FinvR gR (imageQ2R im) (Q2R d) (optQ2R mi) (optQ2R wl) cfsp (optQ2R gf).
Proof. exact @propagate_Q_R. Qed.
Print Assumptions propagate_agrees_on_Q.

Theorem propagate_list_agrees_on_Q : forall (X : Type) (FQ FinvQ : img Q -> img Q) (FR FinvR : img R -> img R) gQ gR,
  (forall x, imgQ2R (FQ x) = FR (imgQ2R x)) -> (forall y, imgQ2R (FinvQ y) = FinvR (imgQ2R y)) ->
  (forall lam cfsp gf xs ys d, imgQ2R (gQ lam cfsp gf xs ys d)
                               = gR (Q2R lam) cfsp (optQ2R gf) (map Q2R xs) (map Q2R ys) (Q2R d)) ->
  forall (im : image Q X) z0 ds mi wl cfsp gf,
  option_map stackQ2R (propagate_list QO FQ FinvQ gQ im z0 ds mi wl cfsp gf)
  = propagate_list RO FR FinvR gR (imageQ2R im) (Q2R z0) (map Q2R ds) (optQ2R mi) (optQ2R wl) cfsp (optQ2R gf).
Proof. exact @propagate_list_Q_R. Qed.
Print Assumptions propagate_list_agrees_on_Q.

Theorem coords_agree_on_Q : forall c,
  map Q2R (ft_coord QO c) = ft_coord RO (map Q2R c) /\ map Q2R (ift_coord QO c) = ift_coord RO (map Q2R c).
Proof. intros. split; [apply ft_coord_Q_R|apply ift_coord_Q_R]. Qed.
Print Assumptions coords_agree_on_Q.

(** ** non-vacuity: the hypotheses used above are satisfiable by concrete non-trivial objects *)
Example hyps_satisfiable :
  (* an inverse, linear, energy-preserving (kap = 1) oracle pair with rectangular output exists *)
  (let F := fun x : img R => x in
   (forall x, F (F x) = x) /\ (forall x y, F (img_add RO x y) = img_add RO (F x) (F y)) /\
   (forall k x, F (img_scale RO k x) = img_scale RO k (F x)) /\
   rect 2 3 (F [[(1, 0); (2, 0); (3, 0)]; [(0, 1); (0, 2); (0, 3)]]) /\
   (forall v, energy RO (F v) = 1 * energy RO v)) /\
  (* a sampling with no evanescent frequency exists (spacing 1, wavelength 1/2) *)
  no_evanescent (1 / 2) (ucoord 0 1 3) (ucoord 5 1 2) /\
  (* the executed Q instance: 3-pixel coordinate round trip and a propagate call that returns Some *)
  map Qred (ift_coord QO (ft_coord QO [0; 1 # 2; 1]%Q)) = [0; 1 # 2; 1]%Q /\
  (exists r, propagate_list QO (fun x => x) (fun x => x) (fun _ _ _ _ _ _ => [[(0, 1)]])%Q
               ([0; 1]%Q, [0]%Q, [[(1, 0)]]%Q, (Some 1%Q, Some 1%Q, tt)) 0%Q [2; 0; 3]%Q None None 0%nat None = Some r
             /\ length (snd (fst r)) = 3%nat).
Proof.
  split; [|split; [|split]].
  - cbv zeta. repeat split; try reflexivity.
    + repeat constructor.
    + intros; ring.
  - intros m n Hm Hn. rewrite ft_coord_closed in Hm, Hn by (lia || lra).
    unfold ucoord in Hm, Hn; simpl in Hm, Hn. unfold root; cbn.
    destruct Hm as [<-|[<-|[<-|[]]]]; destruct Hn as [<-|[<-|[]]]; lra.
  - vm_compute. reflexivity.
  - eexists. split; [vm_compute; reflexivity|reflexivity].
Qed.

(** C03 - the code as found (before the repair recorded in KNOWN_FINDINGS.json, key [ms:cluster-cabs]).
    Multisphere._calc_cscat interpolates the scattering cross section over the polarisation angle from three coefficient
    sums.  Its 45-degree node was sum |A0 - i A1|^2, which is the scattering of the state polarised at MINUS 45 degrees in
    HoloPy's (z-flipped) frame; with it the interpolation is NOT the sum of squares sum |cos g (A0+A1) - i sin g (A0-A1)|^2
    that the repaired formula equals for every angle (Props.cscat_pol_sum_of_squares).  Witness: one coefficient row
    A0 = 1, A1 = i at the angle with cos = 3/5, sin = 4/5: the as-found formula gives 98/25, the state scatters 2/25. *)
From Coq Require Import Reals Lra List ZArith.
From HV Require Import Common.Generic C03.Model C03.Lemmas.
Import ListNotations.
Open Scope R_scope.

Definition ms_cscat_asfound (pi k : R) (rows : list (amn_row (T:=R))) (c2 s2 : R) : R :=
  gamma_interp RO (q_0 RO rows) (q_pi2 RO rows) (q_pi4_asfound RO rows) c2 s2 * 4 * pi / (k * k).

Theorem cscat_asfound_refuted : exists (rows : list (amn_row (T:=R))) c s, c * c + s * s = 1 /\
  gamma_interp RO (q_0 RO rows) (q_pi2 RO rows) (q_pi4_asfound RO rows) (c * c - s * s) (2 * s * c) <>
  sum_from RO (fun _ r => sos_term c s r) 0 rows.
Proof.
  exists [((1, 0), (0, 1))], (3 / 5), (4 / 5). split; [lra|].
  unfold gamma_interp, q_0, q_pi2, q_pi4_asfound, sos_term, sum_from, cabs2, cadd, csub, cmul, cscale, two.
  cbn [fst snd add mul sub opp inv zero one RO]. unfold re, im. cbn [fst snd]. lra.
Qed.
Print Assumptions cscat_asfound_refuted.

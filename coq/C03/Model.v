(** C03 - energy conservation and the optical theorem.  Executable model (no proofs here).
    Anchors: theory/mie_f/miescatlib.py (scatcoeffs, cross_sections, asymmetry_parameter),
    theory/mie_f/multilayer_sphere_lib.py (last step of scatcoeffs_multi: same Bohren-Huffman form),
    theory/mie.py (Mie.raw_cross_sections, _scat_coeffs hand-off x = k r, m = n / n_medium),
    theory/mie_f/mieangfuncs.f90 (pisandtaus upward recurrence, asm_mie_far assembly),
    theory/multisphere.py (_calc_cext, _calc_cscat gamma interpolation, raw_cross_sections),
    interface.py (calc_cross_sections: wavevector 2 pi / (lambda / n_medium)).
    Complex numbers are pairs over the carrier, so one definition serves Q(i) (executed) and C (theorems).
    Oracles (arguments, never axioms): pi; D_n(mx) (lentz_dn1 / dn_1_down), psi_n(x), chi_n(x)
    (scipy riccati_jn / riccati_yn); cos(theta) inside pisandtaus; cos(2 gamma), sin(2 gamma) of the
    polarisation angle; the cluster amplitude matrix at theta = 0 (uts_scsmfo.asm); the expansion
    coefficients a_mn of the multisphere solver (scsmfo_min.amncalc). *)
From Coq Require Import ZArith QArith List Bool.
From HV Require Import Common.Generic.
Import ListNotations.

Section Gen.
Context {T : Type} (O : Ops T).
Declare Scope t_scope. Delimit Scope t_scope with t.
Local Notation "x + y" := (add O x y) : t_scope. Local Notation "x * y" := (mul O x y) : t_scope.
Local Notation "x - y" := (sub O x y) : t_scope. Local Notation "- x" := (opp O x) : t_scope.
Local Notation "x / y" := (mul O x (inv O y)) : t_scope.
Local Notation "0" := (zero O) : t_scope. Local Notation "1" := (one O) : t_scope.
Local Open Scope t_scope.
Definition two : T := 1 + 1.
Definition four : T := two * two.
Definition iz (z : Z) : T := ofZ O z.

(** * complex numbers as pairs (re, im) *)
Definition cx : Type := (T * T)%type.
Definition re (z : cx) : T := fst z.
Definition im (z : cx) : T := snd z.
Definition c0 : cx := (0, 0).
Definition cofr (r : T) : cx := (r, 0).
Definition cadd (a b : cx) : cx := (re a + re b, im a + im b).
Definition csub (a b : cx) : cx := (re a - re b, im a - im b).
Definition cmul (a b : cx) : cx := (re a * re b - im a * im b, re a * im b + im a * re b).
Definition cconj (a : cx) : cx := (re a, - im a).
Definition cscale (r : T) (a : cx) : cx := (r * re a, r * im a).
Definition cabs2 (a : cx) : T := re a * re a + im a * im a.
Definition cdiv (a b : cx) : cx :=
  ((re a * re b + im a * im b) / cabs2 b, (im a * re b - re a * im b) / cabs2 b).

(** a coefficient row is (a_l, b_l); a coefficient list starts at l = 1 (scatcoeffs drops n = 0) *)
Definition coef : Type := (cx * cx)%type.

(** numpy [(w(l) * f(c_l)).sum()] with l = l0, l0+1, ... *)
Fixpoint sum_from {A} (f : Z -> A -> T) (l : Z) (xs : list A) : T :=
  match xs with [] => 0 | x :: t => f l x + sum_from f (l + 1)%Z t end.
Fixpoint csum_from {A} (f : Z -> A -> cx) (l : Z) (xs : list A) : cx :=
  match xs with [] => c0 | x :: t => cadd (f l x) (csum_from f (l + 1)%Z t) end.

(** * miescatlib.cross_sections (prefactor 2 pi / k^2 omitted there) *)
Definition cscat_term (l : Z) (c : coef) : T := iz (2 * l + 1) * (cabs2 (fst c) + cabs2 (snd c)).
Definition cext_term (l : Z) (c : coef) : T := iz (2 * l + 1) * re (cadd (fst c) (snd c)).
Definition cscat_sum (cs : list coef) : T := sum_from cscat_term 1 cs.
Definition cext_sum (cs : list coef) : T := sum_from cext_term 1 cs.
(** alts = 2 * (arange(lmax) % 2) - 1: -1 for l = 1, +1 for l = 2, ... *)
Definition alt (l : Z) : T := if Z.even l then 1 else - (1).
Definition cback_sum (cs : list coef) : T :=
  cabs2 (csum_from (fun l (c : coef) => cscale (iz (2 * l + 1) * alt l) (csub (fst c) (snd c))) 1 cs).

(** * miescatlib.asymmetry_parameter (prefactor omitted there) *)
Fixpoint selfterm_from (l : Z) (cs : list coef) : T :=
  match cs with
  | c :: ((d :: _) as t) =>
      iz l * (iz l + two) / (iz l + 1)
      * re (cadd (cmul (fst c) (cconj (fst d))) (cmul (snd c) (cconj (snd d))))
      + selfterm_from (l + 1)%Z t
  | _ => 0
  end.
Definition crossterm_term (l : Z) (c : coef) : T :=
  (two * iz l + 1) / (iz l * (iz l + 1)) * re (cmul (fst c) (cconj (snd c))).
Definition asym_sum (cs : list coef) : T := selfterm_from 1 cs + sum_from crossterm_term 1 cs.

(** * Mie.raw_cross_sections: (cscat, cabs, cext, asym) *)
Definition mie_raw_cross_sections (pi k : T) (cs : list coef) : T * T * T * T :=
  let pref := two * pi / (k * k) in
  let cscat := cscat_sum cs * pref in
  let cext := cext_sum cs * pref in
  let cabs := cext - cscat in
  let asym := four * pi / (k * k * cscat) * asym_sum cs in
  (cscat, cabs, cext, asym).

(** * interface.calc_cross_sections / imageformation.get_wavevec_from, and Mie._scat_coeffs hand-off *)
Definition wavevec (pi nmed lam : T) : T := two * pi / (lam / nmed).
Definition size_par (k r : T) : T := k * r.
Definition rel_index (n : cx) (nmed : T) : cx := (re n / nmed, im n / nmed).
Definition calc_cross_sections_mie (pi nmed lam : T) (cs : list coef) : T * T * T * T :=
  mie_raw_cross_sections pi (wavevec pi nmed lam) cs.

(** * miescatlib.scatcoeffs, Bohren-Huffman 4.88 form.
    [q] is D_n(mx)/m for a_n and D_n(mx)*m for b_n (H^a/m_L, H^b*m_L for layered spheres);
    xi_n = psi_n + i chi_n with chi_n = riccati_yn (scipy sign). *)
Definition bh_coef (q : cx) (n : Z) (x psi psi1 chi chi1 : T) : cx :=
  let A := cadd q (cofr (iz n / x)) in
  cdiv (csub (cscale psi A) (cofr psi1)) (csub (cmul A (psi, chi)) (psi1, chi1)).
(** one row of the vectorised computation: (D_n, psi_n, psi_{n-1}, chi_n, chi_{n-1}) *)
Definition bh_row : Type := (cx * (T * (T * (T * T))))%type.
Definition bh_pair (m : cx) (x : T) (n : Z) (r : bh_row) : coef :=
  let '(D, (psi, (psi1, (chi, chi1)))) := r in
  (bh_coef (cdiv D m) n x psi psi1 chi chi1, bh_coef (cmul D m) n x psi psi1 chi chi1).
Fixpoint map_from {A B} (f : Z -> A -> B) (n : Z) (l : list A) : list B :=
  match l with [] => [] | a :: t => f n a :: map_from f (n + 1)%Z t end.
(** psishift = concatenate((zeros(1), psi))[0:nstop+1]; output an[1:], bn[1:] *)
Definition bh_rows (Ds : list cx) (psis chis : list T) : list bh_row :=
  combine Ds (combine psis (combine (0 :: psis) (combine chis (0 :: chis)))).
Definition scatcoeffs (m : cx) (x : T) (Ds : list cx) (psis chis : list T) : list coef :=
  tl (map_from (bh_pair m x) 0 (bh_rows Ds psis chis)).

(** * mieangfuncs.pisandtaus: upward recurrence; returns [(pi_1,tau_1); ...; (pi_n,tau_n)] *)
Fixpoint pitau_from (fuel : nat) (cnt : Z) (p1 p2 mu : T) : list (T * T) :=
  match fuel with
  | 0%nat => []
  | S f =>
      let c := iz cnt in
      let p := (two * c - 1) / (c - 1) * mu * p1 - c / (c - 1) * p2 in
      let t := c * mu * p - (c + 1) * p1 in
      (p, t) :: pitau_from f (cnt + 1)%Z p p1 mu
  end.
Definition pisandtaus (n : nat) (mu : T) : list (T * T) :=
  match n with 0%nat => [] | S f => (1, mu) :: pitau_from f 2 1 0 mu end.

(** * mieangfuncs.asm_mie_far: S1 = sum pref (a pi + b tau), S2 = sum pref (a tau + b pi),
      pref = (2n+1)/(n(n+1)); output matrix [[S2, 0], [0, S1]] (row major) *)
Definition asm_pref (n : Z) : T := (two * iz n + 1) / (iz n * (iz n + 1)).
Definition s1_term (n : Z) (cp : coef * (T * T)) : cx :=
  let '((a, b), (p, t)) := cp in cscale (asm_pref n) (cadd (cscale p a) (cscale t b)).
Definition s2_term (n : Z) (cp : coef * (T * T)) : cx :=
  let '((a, b), (p, t)) := cp in cscale (asm_pref n) (cadd (cscale t a) (cscale p b)).
Definition asm_far (cs : list coef) (pt : list (T * T)) : cx * cx * cx * cx :=
  let rows := combine cs pt in
  (csum_from s2_term 1 rows, c0, c0, csum_from s1_term 1 rows).
Definition asm_mie_far (cs : list coef) (mu : T) : cx * cx * cx * cx :=
  asm_far cs (pisandtaus (length cs) mu).
Definition S11 (m : cx * cx * cx * cx) : cx := let '(a, _, _, _) := m in a.
Definition S22 (m : cx * cx * cx * cx) : cx := let '(_, _, _, d) := m in d.

(** * Multisphere._calc_cext: optical theorem on the cluster amplitude matrix at theta = phi = 0.
      pol = (px, py) normalised; ainc = pol*(1,-1); ascat = (asm . ainc)*(1,-1); cext = 4pi/k^2 Re(pol . ascat) *)
Definition ms_cext (pi k : T) (asm : cx * cx * cx * cx) (px py : T) : T :=
  let '(m00, m01, m10, m11) := asm in
  let i0 := px in let i1 := - py in
  let s0 := cadd (cscale i0 m00) (cscale i1 m01) in
  let s1 := cscale (- (1)) (cadd (cscale i0 m10) (cscale i1 m11)) in
  four * pi / (k * k) * re (cadd (cscale px s0) (cscale py s1)).

(** * Multisphere._calc_cscat: three coefficient sums and the gamma interpolation.
      a row of amn is (A0, A1) = (amn[.,.,0], amn[.,.,1]); c2 = cos 2gamma, s2 = sin 2gamma *)
Definition amn_row : Type := (cx * cx)%type.
Definition q_0 (rows : list amn_row) : T := sum_from (fun _ (r : amn_row) => cabs2 (cadd (fst r) (snd r))) 0 rows.
Definition q_pi2 (rows : list amn_row) : T := sum_from (fun _ (r : amn_row) => cabs2 (csub (fst r) (snd r))) 0 rows.
(** A0 + 1j*A1  (the +45 degree linear state in HoloPy's z-flipped frame; the code as found had A0 - 1j*A1, the
    -45 degree state: see Findings.v) *)
Definition q_pi4 (rows : list amn_row) : T :=
  sum_from (fun _ (r : amn_row) => cabs2 (cadd (fst r) (cmul (0, 1) (snd r)))) 0 rows.
Definition q_pi4_asfound (rows : list amn_row) : T :=
  sum_from (fun _ (r : amn_row) => cabs2 (csub (fst r) (cmul (0, 1) (snd r)))) 0 rows.
Definition gamma_interp (q0 qp2 qp4 c2 s2 : T) : T :=
  (q0 + qp2 + c2 * (q0 - qp2) + s2 * (two * qp4 - q0 - qp2)) / two.
Definition ms_cscat (pi k : T) (rows : list amn_row) (c2 s2 : T) : T :=
  gamma_interp (q_0 rows) (q_pi2 rows) (q_pi4 rows) c2 s2 * four * pi / (k * k).
(** Multisphere.raw_cross_sections: [asym_int] is the dblquad value of _calc_asym (oracle) *)
Definition ms_raw_cross_sections (cext cscat asym_int : T) : T * T * T * T :=
  (cscat, cext - cscat, cext, asym_int / cscat).
End Gen.

(** * executable instance: Q with fractions reduced after every addition / subtraction (doubles are
      dyadic; without the reduction the denominators of a fold multiply up; products need none) *)
Definition QOr : Ops Q :=
  mkOps Q 0%Q 1%Q (fun a b => Qred (a + b)) Qmult (fun a b => Qred (a - b)) Qopp
        Qinv Qltb Qle_bool Qeq_bool (fun z => inject_Z z).

(** comparison used by the generated correspondence files: |a - b| <= tol * scale *)
Definition Qabs_ (x : Q) : Q := if Qle_bool 0 x then x else Qopp x.
Definition near (tol scale a b : Q) : bool := Qle_bool (Qabs_ (a - b)) (tol * Qabs_ scale).
Definition cnear (tol scale : Q) (a b : Q * Q) : bool :=
  near tol scale (fst a) (fst b) && near tol scale (snd a) (snd b).
Definition near4 (tol scale : Q) (a b : Q * Q * Q * Q) : bool :=
  let '(a1, a2, a3, a4) := a in let '(b1, b2, b3, b4) := b in
  near tol scale a1 b1 && near tol scale a2 b2 && near tol scale a3 b3 && near tol 1 a4 b4.
Fixpoint coefs_near (tol : Q) (a b : list ((Q * Q) * (Q * Q))) : bool :=
  match a, b with
  | [], [] => true
  | (a1, a2) :: ta, (b1, b2) :: tb =>
      cnear tol (Qabs_ (fst b1) + Qabs_ (snd b1)) a1 b1 && cnear tol (Qabs_ (fst b2) + Qabs_ (snd b2)) a2 b2
      && coefs_near tol ta tb
  | _, _ => false
  end.

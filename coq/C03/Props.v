(** C03 property theorems: statements only; proofs are in Lemmas.v.
    R instance = object of the theorems; the reduced-Q instance [QOr] that is executed against the
    implementation computes the same sums (sums_agree_on_Q).  Every theorem is for EVERY coefficient
    list / expansion order / polarisation angle.

    NOT provable here (explored on the implementation by harness/props/c03.py, never called proved):
      - cabs >= 0 for an absorbing sphere (Im m > 0): an analytic property of the Mie coefficients
        (needs Bessel-function theory for complex argument);
      - |g| <= 1: a positivity statement about the quadratic form  cscat_sum +- 2 asym_sum  that follows
        from the orthogonality integrals of pi_n, tau_n;
      - cscat and g equal the solid-angle integrals of |S|^2 (orthogonality of pi_n, tau_n);
      - the Rayleigh limit (small-argument asymptotics of psi_n, chi_n, D_n);
      - numerical agreement of the multi-sphere solver with the single-sphere one (iterative solver,
        truncated expansions, dblquad);
      - that D_n(mx), psi_n(x), chi_n(x) returned by the Fortran / scipy kernels are real for real
        arguments and satisfy the cross-product relation (hypothesis [row_ok], sampled each run). *)
From Coq Require Import ZArith QArith Qreals Reals List Bool Lra.
From HV Require Import Common.Generic C03.Model C03.Lemmas.
Import ListNotations.
Local Open Scope R_scope.

(* energy conservation bookkeeping: extinction = scattering + absorption, single-sphere and cluster code *)
Theorem cext_split : forall pi k cs cext cscat asym_int,
  x_ext (mie_raw_cross_sections RO pi k cs) =
    x_scat (mie_raw_cross_sections RO pi k cs) + x_abs (mie_raw_cross_sections RO pi k cs) /\
  x_ext (ms_raw_cross_sections RO cext cscat asym_int) =
    x_scat (ms_raw_cross_sections RO cext cscat asym_int) + x_abs (ms_raw_cross_sections RO cext cscat asym_int).
Proof. intros. split; [apply cext_split_mie|apply cext_split_ms]. Qed.
Print Assumptions cext_split.

(* the Bohren-Huffman coefficient formula with a real D_n/m (or D_n*m) is N / (N + i M), N and M real,
   and N, M cannot vanish together when the Riccati-Bessel cross product is non-zero *)
Theorem bh_real_form : forall qr n x psi psi1 chi chi1,
  bh_coef RO (qr, 0) n x psi psi1 chi chi1 =
    cdiv RO (bhN qr n x psi psi1, 0) (bhN qr n x psi psi1, bhN qr n x chi chi1) /\
  (psi * chi1 - psi1 * chi <> 0 ->
   bhN qr n x psi psi1 * bhN qr n x psi psi1 + bhN qr n x chi chi1 * bhN qr n x chi chi1 <> 0).
Proof. intros. split; [apply bh_real_form_eq|apply bh_den_nonzero]. Qed.
Print Assumptions bh_real_form.

(* Re a = |a|^2 for such a coefficient, hence sum (2l+1) Re(a+b) = sum (2l+1)(|a|^2+|b|^2) for every list
   length and cabs = 0 identically *)
Theorem real_index_no_absorption : forall pi k cs, Forall coef_real_form cs ->
  cext_sum RO cs = cscat_sum RO cs /\ x_abs (mie_raw_cross_sections RO pi k cs) = 0.
Proof. intros pi k cs H. split; [apply (sums_equal_real_form cs H)|apply no_absorption, H]. Qed.
Print Assumptions real_index_no_absorption.

(* end to end through the model of miescatlib.scatcoeffs: real relative index, real D_n, any expansion order *)
Theorem mie_real_index_cabs_zero : forall pi k mr x Ds psis chis,
  Forall row_ok (tl (bh_rows RO Ds psis chis)) ->
  x_abs (mie_raw_cross_sections RO pi k (scatcoeffs RO (mr, 0) x Ds psis chis)) = 0.
Proof. exact mie_real_index_no_absorption. Qed.
Print Assumptions mie_real_index_cabs_zero.

Theorem cscat_nonneg : forall pi k cs, 0 < pi -> k <> 0 -> 0 <= x_scat (mie_raw_cross_sections RO pi k cs).
Proof. exact Lemmas.cscat_nonneg. Qed.
Print Assumptions cscat_nonneg.

Theorem cscat_pos : forall pi k cs, 0 < pi -> k <> 0 ->
  (exists c, In c cs /\ (fst c <> c0 RO \/ snd c <> c0 RO)) ->
  0 < x_scat (mie_raw_cross_sections RO pi k cs).
Proof. exact Lemmas.cscat_pos. Qed.
Print Assumptions cscat_pos.

(* pisandtaus at cos(theta) = 1: pi_n = tau_n = n(n+1)/2 for every order, by the recurrence the code uses *)
Theorem pi_tau_forward : forall n i, (i < n)%nat ->
  nth i (pisandtaus RO n 1) (0, 0) = (tri (Z.of_nat i + 1), tri (Z.of_nat i + 1)).
Proof. exact pi_tau_forward_nth. Qed.
Print Assumptions pi_tau_forward.

(* asm_mie_far at theta = 0: both diagonal entries equal 1/2 sum (2l+1)(a_l + b_l) *)
Theorem forward_amplitude : forall cs,
  S11 (asm_mie_far RO cs 1) = cscale RO (/ 2) (csum_from RO fwd_term 1 cs) /\
  S22 (asm_mie_far RO cs 1) = cscale RO (/ 2) (csum_from RO fwd_term 1 cs).
Proof. exact Lemmas.forward_amplitude. Qed.
Print Assumptions forward_amplitude.

(* optical theorem between the two entry points, for every coefficient list *)
Theorem optical_theorem : forall pi k cs,
  4 * pi / (k * k) * re (S11 (asm_mie_far RO cs 1)) = x_ext (mie_raw_cross_sections RO pi k cs) /\
  4 * pi / (k * k) * re (S22 (asm_mie_far RO cs 1)) = x_ext (mie_raw_cross_sections RO pi k cs).
Proof. exact optical_theorem_mie. Qed.
Print Assumptions optical_theorem.

(* Multisphere._calc_cext applied to a sphere-like forward matrix returns the single-sphere extinction,
   for every unit polarisation *)
Theorem ms_optical_theorem_one_sphere : forall pi k cs px py, px * px + py * py = 1 ->
  ms_cext RO pi k (S11 (asm_mie_far RO cs 1), c0 RO, c0 RO, S22 (asm_mie_far RO cs 1)) px py =
  x_ext (mie_raw_cross_sections RO pi k cs).
Proof. exact ms_cext_one_sphere. Qed.
Print Assumptions ms_optical_theorem_one_sphere.

(* the gamma interpolation of Multisphere._calc_cscat returns its three nodes and is pi-periodic *)
Theorem cscat_pol_nodes : forall q0 qp2 qp4,
  gamma_interp_angle q0 qp2 qp4 0 = q0 /\
  gamma_interp_angle q0 qp2 qp4 (PI / 2) = qp2 /\
  gamma_interp_angle q0 qp2 qp4 (PI / 4) = qp4 /\
  forall g, gamma_interp_angle q0 qp2 qp4 (g + PI) = gamma_interp_angle q0 qp2 qp4 g.
Proof.
  intros. destruct (gamma_angle_nodes q0 qp2 qp4) as (A & B & C).
  repeat split; auto. apply gamma_angle_periodic.
Qed.
Print Assumptions cscat_pol_nodes.

(* ... and on the three coefficient sums it is a sum of squares, so the cluster cscat is >= 0 for every
   polarisation angle (c = cos gamma, s = sin gamma; cos 2gamma = c^2 - s^2, sin 2gamma = 2 s c) *)
Theorem cscat_pol_sum_of_squares : forall pi k rows c s, c * c + s * s = 1 ->
  ms_cscat RO pi k rows (c * c - s * s) (2 * s * c) =
    sum_from RO (fun _ r => sos_term c s r) 0 rows * 4 * pi / (k * k) /\
  (0 < pi -> k <> 0 -> 0 <= ms_cscat RO pi k rows (c * c - s * s) (2 * s * c)).
Proof. intros. split; [apply ms_cscat_sos; assumption|intros; apply ms_cscat_nonneg; assumption]. Qed.
Print Assumptions cscat_pol_sum_of_squares.

(* wavevector formula of calc_cross_sections *)
Theorem k_def : forall pi nmed lam, lam <> 0 -> nmed <> 0 -> wavevec RO pi nmed lam = 2 * pi * nmed / lam.
Proof. exact Lemmas.k_def. Qed.
Print Assumptions k_def.

(* changing the length unit by s: k -> k/s, size parameter unchanged, cross sections scale with s^2,
   asymmetry parameter unchanged *)
Theorem unit_scaling : forall pi nmed lam r s cs, lam <> 0 -> nmed <> 0 -> s <> 0 -> pi <> 0 ->
  let k := wavevec RO pi nmed lam in
  wavevec RO pi nmed (s * lam) = k / s /\
  size_par RO (wavevec RO pi nmed (s * lam)) (s * r) = size_par RO k r /\
  x_scat (mie_raw_cross_sections RO pi (k / s) cs) = s * s * x_scat (mie_raw_cross_sections RO pi k cs) /\
  x_abs (mie_raw_cross_sections RO pi (k / s) cs) = s * s * x_abs (mie_raw_cross_sections RO pi k cs) /\
  x_ext (mie_raw_cross_sections RO pi (k / s) cs) = s * s * x_ext (mie_raw_cross_sections RO pi k cs) /\
  (cscat_sum RO cs <> 0 ->
   x_asym (mie_raw_cross_sections RO pi (k / s) cs) = x_asym (mie_raw_cross_sections RO pi k cs)).
Proof.
  intros pi nmed lam r s cs Hl Hn Hs Hp k.
  assert (Hk : k <> 0).
  { unfold k. rewrite Lemmas.k_def by assumption. unfold Rdiv.
    assert (/ lam <> 0) by (apply Rinv_neq_0_compat; auto).
    repeat apply Rmult_integral_contrapositive_currified; auto; lra. }
  split; [apply k_scaling; assumption|]. split; [apply size_par_scaling; assumption|].
  destruct (cross_sections_scaling pi k s cs Hk Hs) as (A & B & C).
  repeat split; auto. intros Hc. apply asym_scaling; assumption.
Qed.
Print Assumptions unit_scaling.

(* the executed instance (Q, fractions reduced after each operation) is the R instance on the same data *)
Theorem sums_agree_on_Q : forall cs,
  Q2R (cscat_sum QOr cs) = cscat_sum RO (map coefQ2R cs) /\
  Q2R (cext_sum QOr cs) = cext_sum RO (map coefQ2R cs).
Proof. exact sums_Q_R. Qed.
Print Assumptions sums_agree_on_Q.

(* non-vacuity: the hypotheses are satisfiable by concrete, non-trivial objects *)
Example hyps_satisfiable :
  (* a row with real D and cross product 1, as the harness samples it *)
  Forall row_ok (tl (bh_rows RO [(1, 0); (2, 0)] [1; 2] [3; 7])) /\
  (* a coefficient of the real form that is not zero *)
  coef_real_form (cdiv RO (1, 0) (1, 2), cdiv RO (3, 0) (3, -1)) /\
  (exists c : coef, In c [(cdiv RO (1, 0) (1, 2), c0 RO)] /\ (fst c <> c0 RO \/ snd c <> c0 RO)) /\
  (* a unit polarisation that is neither of the nodes *)
  (3 / 5) * (3 / 5) + (4 / 5) * (4 / 5) = 1 /\
  (* the executed model returns the expected numbers on a small list *)
  Qeq_bool (cext_sum QOr [((1 # 2, 0), (1 # 4, 1 # 8))%Q]) (9 # 4) = true.
Proof.
  split; [|split; [|split; [|split]]].
  - cbn. constructor; [|constructor]. cbn. split; lra.
  - split; [exists 1, 2|exists 3, (-1)]; split; try reflexivity; lra.
  - eexists. split; [left; reflexivity|]. left. cbn. unfold cdiv, cabs2, re, im. cbn.
    intro E. apply (f_equal fst) in E. cbn in E. lra.
  - field.
  - vm_compute. reflexivity.
Qed.

(** C03 - proofs.  All statements are over R for EVERY coefficient list / expansion order. *)
From Coq Require Import ZArith QArith Qreals Reals List Bool Lra Lia Psatz.
From HV Require Import Common.Generic C03.Model.
Import ListNotations.
Local Open Scope R_scope.

Ltac ur :=
  unfold mie_raw_cross_sections, calc_cross_sections_mie, cscat_sum, cext_sum, cscat_term, cext_term,
         ms_raw_cross_sections, ms_cext, ms_cscat, gamma_interp, wavevec, size_par,
         bh_coef, cdiv, cmul, cadd, csub, cscale, cconj, cabs2, cofr, c0, four, two, iz, re, im in *;
  cbn [zero one add mul sub opp inv ofZ RO fst snd] in *.

(* [ring]/[field] read [IZR z] with a variable [z] as a constant and fail: abstract it first *)
Ltac gen_izr := repeat match goal with |- context [IZR ?z] => is_var z; let r := fresh "r" in set (r := IZR z) in *; clearbody r end.
Ltac rg := unfold Rdiv; gen_izr; ring.
Lemma pair_eq {A B} (a b : A * B) : fst a = fst b -> snd a = snd b -> a = b.
Proof. destruct a, b; cbn; intros; subst; reflexivity. Qed.
Ltac peq := apply pair_eq; cbn [fst snd].

Notation cxR := (cx (T:=R)).
Notation coefR := (coef (T:=R)).

(** * projections of the four-tuple *)
Definition x_scat (t : R * R * R * R) : R := let '(a, _, _, _) := t in a.
Definition x_abs (t : R * R * R * R) : R := let '(_, b, _, _) := t in b.
Definition x_ext (t : R * R * R * R) : R := let '(_, _, c, _) := t in c.
Definition x_asym (t : R * R * R * R) : R := let '(_, _, _, d) := t in d.

(** * cext = cscat + cabs (both theories) *)
Lemma cext_split_mie pi k cs :
  x_ext (mie_raw_cross_sections RO pi k cs) =
  x_scat (mie_raw_cross_sections RO pi k cs) + x_abs (mie_raw_cross_sections RO pi k cs).
Proof. unfold x_ext, x_scat, x_abs. ur. ring. Qed.
Lemma cext_split_ms cext cscat ai :
  x_ext (ms_raw_cross_sections RO cext cscat ai) =
  x_scat (ms_raw_cross_sections RO cext cscat ai) + x_abs (ms_raw_cross_sections RO cext cscat ai).
Proof. unfold x_ext, x_scat, x_abs. ur. ring. Qed.

(** * real index: coefficients of the form N / (N + i M) *)
Definition is_real_form (c : cxR) : Prop :=
  exists N M, N * N + M * M <> 0 /\ c = cdiv RO (N, 0) (N, M).

Lemma real_form_re c : is_real_form c -> re c = cabs2 RO c.
Proof. intros (N & M & H & ->). ur. field. exact H. Qed.

Definition coef_real_form (c : coefR) : Prop := is_real_form (fst c) /\ is_real_form (snd c).

Lemma sums_equal_real_form cs : Forall coef_real_form cs ->
  forall l, sum_from RO (cext_term RO) l cs = sum_from RO (cscat_term RO) l cs.
Proof.
  induction 1 as [|c cs [Ha Hb] _ IH]; intros l; cbn [sum_from]; [reflexivity|].
  rewrite IH. cbn [add RO]. f_equal. unfold cext_term, cscat_term.
  rewrite <- (real_form_re _ Ha), <- (real_form_re _ Hb). ur. ring.
Qed.

Lemma no_absorption pi k cs : Forall coef_real_form cs ->
  x_abs (mie_raw_cross_sections RO pi k cs) = 0.
Proof.
  intros H. unfold x_abs, mie_raw_cross_sections, cext_sum, cscat_sum.
  rewrite (sums_equal_real_form cs H). cbn [sub mul RO]. ring.
Qed.

(** Bohren-Huffman form with real q (= D/m or D*m): numerator N real, denominator N + i M *)
Definition bhN (qr : R) (n : Z) (x psi psi1 : R) : R := (qr + IZR n / x) * psi - psi1.

Lemma bh_real_form_eq qr n x psi psi1 chi chi1 :
  bh_coef RO (qr, 0) n x psi psi1 chi chi1 =
  cdiv RO (bhN qr n x psi psi1, 0) (bhN qr n x psi psi1, bhN qr n x chi chi1).
Proof.
  unfold bh_coef, bhN. f_equal; ur; peq; rg.
Qed.

(** the cross product psi_n chi_{n-1} - psi_{n-1} chi_n (= 1 for Riccati-Bessel functions, sampled by the
    harness) keeps numerator and denominator from vanishing together *)
Lemma bh_den_nonzero qr n x psi psi1 chi chi1 :
  psi * chi1 - psi1 * chi <> 0 ->
  bhN qr n x psi psi1 * bhN qr n x psi psi1 + bhN qr n x chi chi1 * bhN qr n x chi chi1 <> 0.
Proof.
  intros W H. set (N := bhN qr n x psi psi1) in *. set (M := bhN qr n x chi chi1) in *.
  assert (HN : N = 0) by nra. assert (HM : M = 0) by nra.
  apply W. replace (psi * chi1 - psi1 * chi) with (N * chi - M * psi) by (unfold N, M, bhN; ring).
  rewrite HN, HM. ring.
Qed.

Lemma bh_is_real_form qr n x psi psi1 chi chi1 :
  psi * chi1 - psi1 * chi <> 0 -> is_real_form (bh_coef RO (qr, 0) n x psi psi1 chi chi1).
Proof.
  intros W. exists (bhN qr n x psi psi1), (bhN qr n x chi chi1). split.
  - apply bh_den_nonzero, W.
  - apply bh_real_form_eq.
Qed.

Lemma real_div_real dr mr : exists qr, cdiv RO (dr, 0) (mr, 0) = (qr, 0).
Proof. eexists. ur. f_equal. ring. Qed.
Lemma real_mul_real dr mr : exists qr, cmul RO (dr, 0) (mr, 0) = (qr, 0).
Proof. eexists. ur. f_equal. ring. Qed.

(** what the harness checks on each row that enters a coefficient: D_n real, cross product non-zero *)
Definition row_ok (r : bh_row (T:=R)) : Prop :=
  let '(D, (psi, (psi1, (chi, chi1)))) := r in im D = 0 /\ psi * chi1 - psi1 * chi <> 0.

Lemma bh_pair_real_form mr x n r : row_ok r -> coef_real_form (bh_pair RO (mr, 0) x n r).
Proof.
  destruct r as [[dr di] [psi [psi1 [chi chi1]]]]. unfold row_ok. cbn [im snd]. intros [-> W].
  unfold bh_pair, coef_real_form. cbn [fst snd].
  destruct (real_div_real dr mr) as [q1 ->]. destruct (real_mul_real dr mr) as [q2 E2].
  unfold cxR in *. rewrite E2.
  split; apply bh_is_real_form, W.
Qed.

Lemma tl_map_from {A B} (f : Z -> A -> B) n l : tl (map_from f n l) = map_from f (n + 1)%Z (tl l).
Proof. destruct l; reflexivity. Qed.

Lemma scatcoeffs_real_form mr x Ds psis chis :
  Forall row_ok (tl (bh_rows RO Ds psis chis)) ->
  Forall coef_real_form (scatcoeffs RO (mr, 0) x Ds psis chis).
Proof.
  unfold scatcoeffs. rewrite tl_map_from. generalize (tl (bh_rows RO Ds psis chis)) (0 + 1)%Z.
  intros l z H. revert z. induction H; intros z; cbn [map_from]; constructor; auto using bh_pair_real_form.
Qed.

Lemma mie_real_index_no_absorption pi k mr x Ds psis chis :
  Forall row_ok (tl (bh_rows RO Ds psis chis)) ->
  x_abs (mie_raw_cross_sections RO pi k (scatcoeffs RO (mr, 0) x Ds psis chis)) = 0.
Proof. intros H. apply no_absorption, scatcoeffs_real_form, H. Qed.

(** * cscat >= 0, > 0 *)
Lemma cabs2_nonneg (a : cxR) : 0 <= cabs2 RO a.
Proof. destruct a. ur. nra. Qed.
Lemma cabs2_pos (a : cxR) : a <> c0 RO -> 0 < cabs2 RO a.
Proof.
  destruct a as [x y]. intros H. ur.
  destruct (Req_dec x 0) as [->|Hx]; [destruct (Req_dec y 0) as [->|Hy]|]; [exfalso; apply H; reflexivity| |]; nra.
Qed.
Lemma w_nonneg l : (0 <= l)%Z -> 0 < IZR (2 * l + 1).
Proof. intros. apply IZR_lt. lia. Qed.

Lemma cscat_term_nonneg l c : (0 <= l)%Z -> 0 <= cscat_term RO l c.
Proof.
  intros H. unfold cscat_term. cbn [mul add RO]. unfold iz. cbn [ofZ RO].
  pose proof (w_nonneg l H). pose proof (cabs2_nonneg (fst c)). pose proof (cabs2_nonneg (snd c)). nra.
Qed.
Lemma cscat_sum_from_nonneg cs : forall l, (0 <= l)%Z -> 0 <= sum_from RO (cscat_term RO) l cs.
Proof.
  induction cs as [|c cs IH]; intros l H; cbn [sum_from zero add RO]; [lra|].
  pose proof (cscat_term_nonneg l c H). pose proof (IH (l + 1)%Z ltac:(lia)). lra.
Qed.
Lemma cscat_sum_from_pos cs : forall l c, (0 <= l)%Z -> In c cs -> (fst c <> c0 RO \/ snd c <> c0 RO) ->
  0 < sum_from RO (cscat_term RO) l cs.
Proof.
  induction cs as [|d cs IH]; intros l c H Hin Hnz; [destruct Hin|].
  cbn [sum_from add RO].
  pose proof (cscat_term_nonneg l d H). pose proof (cscat_sum_from_nonneg cs (l + 1)%Z ltac:(lia)).
  destruct Hin as [->|Hin].
  - assert (0 < cscat_term RO l c); [|lra].
    unfold cscat_term. cbn [mul add RO]. unfold iz. cbn [ofZ RO]. pose proof (w_nonneg l H).
    pose proof (cabs2_nonneg (fst c)). pose proof (cabs2_nonneg (snd c)).
    destruct Hnz as [Hn|Hn]; apply cabs2_pos in Hn; nra.
  - pose proof (IH (l + 1)%Z c ltac:(lia) Hin Hnz). lra.
Qed.

Lemma pref_pos pi k : 0 < pi -> k <> 0 -> 0 < 2 * pi * / (k * k).
Proof. intros. assert (0 < k * k) by nra. pose proof (Rinv_0_lt_compat _ H1). nra. Qed.

Lemma cscat_nonneg pi k cs : 0 < pi -> k <> 0 -> 0 <= x_scat (mie_raw_cross_sections RO pi k cs).
Proof.
  intros Hp Hk. unfold x_scat, mie_raw_cross_sections, cscat_sum. cbn [mul add one inv RO two].
  pose proof (cscat_sum_from_nonneg cs 1 ltac:(lia)). pose proof (pref_pos pi k Hp Hk).
  replace ((1 + 1) * pi * / (k * k)) with (2 * pi * / (k * k)) by ring. nra.
Qed.
Lemma cscat_pos pi k cs : 0 < pi -> k <> 0 ->
  (exists c, In c cs /\ (fst c <> c0 RO \/ snd c <> c0 RO)) ->
  0 < x_scat (mie_raw_cross_sections RO pi k cs).
Proof.
  intros Hp Hk (c & Hin & Hnz). unfold x_scat, mie_raw_cross_sections, cscat_sum. cbn [mul add one inv RO two].
  pose proof (cscat_sum_from_pos cs 1 c ltac:(lia) Hin Hnz). pose proof (pref_pos pi k Hp Hk).
  replace ((1 + 1) * pi * / (k * k)) with (2 * pi * / (k * k)) by ring. nra.
Qed.

(** * pi_n(1) = tau_n(1) = n(n+1)/2 by the recurrence the code uses *)
Definition tri (k : Z) : R := IZR k * (IZR k + 1) / 2.
Fixpoint zseq (s : Z) (n : nat) : list Z := match n with O => [] | S f => s :: zseq (s + 1) f end.

Lemma pitau_from_forward fuel : forall cnt, (2 <= cnt)%Z ->
  pitau_from RO fuel cnt (tri (cnt - 1)) (tri (cnt - 2)) 1 = map (fun k => (tri k, tri k)) (zseq cnt fuel).
Proof.
  induction fuel as [|f IH]; intros cnt H; [reflexivity|].
  cbn [pitau_from zseq map].
  assert (Hc : 2 <= IZR cnt) by (apply IZR_le; exact H).
  set (p := sub RO _ _).
  assert (Hp : p = tri cnt).
  { unfold p, tri, two, iz. cbn [zero one add mul sub opp inv ofZ RO]. rewrite !minus_IZR. field. lra. }
  rewrite Hp. f_equal.
  - f_equal. unfold tri, iz. cbn [zero one add mul sub opp inv ofZ RO]. rewrite !minus_IZR. field.
  - specialize (IH (cnt + 1)%Z ltac:(lia)).
    replace (cnt + 1 - 1)%Z with cnt in IH by lia. replace (cnt + 1 - 2)%Z with (cnt - 1)%Z in IH by lia.
    exact IH.
Qed.

Lemma pisandtaus_forward n : pisandtaus RO n 1 = map (fun k => (tri k, tri k)) (zseq 1 n).
Proof.
  destruct n as [|f]; [reflexivity|]. cbn [pisandtaus zseq map]. f_equal.
  - unfold tri. cbn [one RO]. f_equal; field.
  - replace (one RO) with (tri (2 - 1)) by (unfold tri; cbn; field).
    replace (zero RO) with (tri (2 - 2)) by (unfold tri; cbn; field).
    apply (pitau_from_forward f 2). lia.
Qed.

Lemma nth_zseq n : forall s i, (i < n)%nat -> nth i (zseq s n) 0%Z = (s + Z.of_nat i)%Z.
Proof.
  induction n as [|n IH]; intros s i H; [lia|]. destruct i as [|i]; cbn [zseq nth]; [lia|].
  rewrite IH by lia. lia.
Qed.
Lemma length_zseq n : forall s, length (zseq s n) = n.
Proof. induction n; intros; cbn [zseq length]; auto. Qed.

Lemma pi_tau_forward_nth n i : (i < n)%nat ->
  nth i (pisandtaus RO n 1) (0, 0) = (tri (Z.of_nat i + 1), tri (Z.of_nat i + 1)).
Proof.
  intros H. rewrite pisandtaus_forward. set (f := fun k => (tri k, tri k)).
  rewrite (nth_indep _ (0, 0) (f 0%Z)) by (rewrite map_length, length_zseq; exact H).
  rewrite (map_nth f), nth_zseq by exact H. unfold f. replace (1 + Z.of_nat i)%Z with (Z.of_nat i + 1)%Z by lia. reflexivity.
Qed.

(** * forward amplitude: S1(0) = S2(0) = 1/2 sum (2l+1)(a_l + b_l) *)
Definition fwd_term (l : Z) (c : coefR) : cxR := cscale RO (IZR (2 * l + 1)) (cadd RO (fst c) (snd c)).

Lemma cx_eq (a b : cxR) : fst a = fst b -> snd a = snd b -> a = b.
Proof. destruct a, b; cbn; intros; subst; reflexivity. Qed.

Lemma fwd_sum_gen (term : Z -> coefR * (R * R) -> cxR) :
  (forall l a b, (1 <= l)%Z -> term l ((a, b), (tri l, tri l)) = cscale RO (/ 2) (fwd_term l (a, b))) ->
  forall cs l, (1 <= l)%Z ->
  csum_from RO term l (combine cs (map (fun k => (tri k, tri k)) (zseq l (length cs)))) =
  cscale RO (/ 2) (csum_from RO fwd_term l cs).
Proof.
  intros Ht. induction cs as [|[a b] cs IH]; intros l H.
  - cbn. ur. f_equal; ring.
  - cbn [length zseq map combine csum_from]. rewrite (IH (l + 1)%Z) by lia. rewrite Ht by exact H.
    ur. f_equal; ring.
Qed.

Lemma s_term_forward l a b : (1 <= l)%Z ->
  s1_term RO l ((a, b), (tri l, tri l)) = cscale RO (/ 2) (fwd_term l (a, b)) /\
  s2_term RO l ((a, b), (tri l, tri l)) = cscale RO (/ 2) (fwd_term l (a, b)).
Proof.
  intros H. assert (Hl : 1 <= IZR l) by (apply IZR_le; exact H).
  unfold s1_term, s2_term, fwd_term, asm_pref, tri. destruct a as [ar ai], b as [br bi].
  ur. rewrite plus_IZR, mult_IZR.
  split; f_equal; field; lra.
Qed.

Lemma forward_amplitude cs :
  S11 (asm_mie_far RO cs 1) = cscale RO (/ 2) (csum_from RO fwd_term 1 cs) /\
  S22 (asm_mie_far RO cs 1) = cscale RO (/ 2) (csum_from RO fwd_term 1 cs).
Proof.
  unfold asm_mie_far, asm_far, S11, S22. rewrite pisandtaus_forward. split.
  - apply (fwd_sum_gen (s2_term RO)); [intros; apply s_term_forward; assumption|lia].
  - apply (fwd_sum_gen (s1_term RO)); [intros; apply s_term_forward; assumption|lia].
Qed.

Lemma re_fwd_sum cs : forall l, re (csum_from RO fwd_term l cs) = sum_from RO (cext_term RO) l cs.
Proof.
  induction cs as [|c cs IH]; intros l; cbn [csum_from sum_from]; [reflexivity|].
  rewrite <- IH. unfold fwd_term, cext_term. ur. ring.
Qed.

Lemma optical_theorem_mie pi k cs :
  4 * pi / (k * k) * re (S11 (asm_mie_far RO cs 1)) = x_ext (mie_raw_cross_sections RO pi k cs) /\
  4 * pi / (k * k) * re (S22 (asm_mie_far RO cs 1)) = x_ext (mie_raw_cross_sections RO pi k cs).
Proof.
  destruct (forward_amplitude cs) as [E1 E2]. rewrite E1, E2.
  unfold x_ext, mie_raw_cross_sections, cext_sum. rewrite <- (re_fwd_sum cs 1).
  set (F := csum_from RO fwd_term 1 cs). destruct F as [fr fi]. ur. unfold Rdiv. generalize (/ (k * k)). intros ik. split; field.
Qed.

(** * Multisphere: optical theorem form of _calc_cext on a sphere-like (scalar) forward matrix *)
Lemma ms_cext_scalar pi k (S : cxR) px py : px * px + py * py = 1 ->
  ms_cext RO pi k (S, c0 RO, c0 RO, S) px py = 4 * pi / (k * k) * re S.
Proof.
  intros H. destruct S as [sr si]. ur.
  replace (px * (px * sr + - py * 0) + py * (- (1) * (px * 0 + - py * sr))) with ((px * px + py * py) * sr) by ring.
  rewrite H. unfold Rdiv. ring.
Qed.


(** a one-sphere "cluster": the forward matrix is the Mie one, so _calc_cext returns the Mie cext *)
Lemma ms_cext_one_sphere pi k cs px py : px * px + py * py = 1 ->
  ms_cext RO pi k (S11 (asm_mie_far RO cs 1), c0 RO, c0 RO, S22 (asm_mie_far RO cs 1)) px py =
  x_ext (mie_raw_cross_sections RO pi k cs).
Proof.
  intros H. destruct (optical_theorem_mie pi k cs) as [E _]. rewrite <- E.
  destruct (forward_amplitude cs) as [E1 E2]. rewrite E2, <- E1. apply ms_cext_scalar, H.
Qed.

(** * Multisphere._calc_cscat: nodes and periodicity of the gamma interpolation *)
Lemma gamma_nodes q0 qp2 qp4 :
  gamma_interp RO q0 qp2 qp4 1 0 = q0 /\
  gamma_interp RO q0 qp2 qp4 (-1) 0 = qp2 /\
  gamma_interp RO q0 qp2 qp4 0 1 = qp4.
Proof. ur. repeat split; field. Qed.

Definition gamma_interp_angle (q0 qp2 qp4 g : R) : R := gamma_interp RO q0 qp2 qp4 (cos (2 * g)) (sin (2 * g)).

Lemma gamma_angle_nodes q0 qp2 qp4 :
  gamma_interp_angle q0 qp2 qp4 0 = q0 /\
  gamma_interp_angle q0 qp2 qp4 (PI / 2) = qp2 /\
  gamma_interp_angle q0 qp2 qp4 (PI / 4) = qp4.
Proof.
  unfold gamma_interp_angle. destruct (gamma_nodes q0 qp2 qp4) as (A & B & C).
  replace (2 * 0) with 0 by ring. replace (2 * (PI / 2)) with PI by field. replace (2 * (PI / 4)) with (PI / 2) by field.
  rewrite cos_0, sin_0, cos_PI, sin_PI, cos_PI2, sin_PI2. auto.
Qed.
Lemma gamma_angle_periodic q0 qp2 qp4 g :
  gamma_interp_angle q0 qp2 qp4 (g + PI) = gamma_interp_angle q0 qp2 qp4 g.
Proof.
  unfold gamma_interp_angle. replace (2 * (g + PI)) with (2 * g + 2 * PI) by ring.
  rewrite cos_plus, sin_plus, cos_2PI, sin_2PI. f_equal; ring.
Qed.

(** the interpolation is a sum of squares: with P = A0 + A1 (gamma = 0 solution) and Q = A0 - A1
    (gamma = pi/2 solution) it equals sum |cos g P - i sin g Q|^2, hence it is >= 0 for every angle *)
Definition sos_term (c s : R) (r : amn_row (T:=R)) : R :=
  cabs2 RO (csub RO (cscale RO c (cadd RO (fst r) (snd r)))
                    (cmul RO (0, 1) (cscale RO s (csub RO (fst r) (snd r))))).

Lemma gamma_interp_add a b d a' b' d' c2 s2 :
  gamma_interp RO (a + a') (b + b') (d + d') c2 s2 = gamma_interp RO a b d c2 s2 + gamma_interp RO a' b' d' c2 s2.
Proof. ur. field. Qed.

Lemma gamma_term_sos c s (r : amn_row (T:=R)) : c * c + s * s = 1 ->
  gamma_interp RO (cabs2 RO (cadd RO (fst r) (snd r))) (cabs2 RO (csub RO (fst r) (snd r)))
               (cabs2 RO (cadd RO (fst r) (cmul RO (0, 1) (snd r)))) (c * c - s * s) (2 * s * c) = sos_term c s r.
Proof.
  intros H. destruct r as [[x0 y0] [x1 y1]]. unfold sos_term. ur.
  set (p := (x0 + x1) * (x0 + x1) + (y0 + y1) * (y0 + y1)).
  set (q := (x0 - x1) * (x0 - x1) + (y0 - y1) * (y0 - y1)).
  replace ((p + q + (c * c - s * s) * (p - q) +
            2 * s * c * ((1 + 1) * ((x0 + (0 * x1 - 1 * y1)) * (x0 + (0 * x1 - 1 * y1)) +
                                    (y0 + (0 * y1 + 1 * x1)) * (y0 + (0 * y1 + 1 * x1))) - p - q)) * / (1 + 1))
    with (((c * c + s * s) * (p + q) + (c * c - s * s) * (p - q) +
            2 * s * c * ((1 + 1) * ((x0 + (0 * x1 - 1 * y1)) * (x0 + (0 * x1 - 1 * y1)) +
                                    (y0 + (0 * y1 + 1 * x1)) * (y0 + (0 * y1 + 1 * x1))) - p - q)) * / (1 + 1))
    by (rewrite H; ring).
  unfold p, q. field.
Qed.

Lemma gamma_sos c s rows : c * c + s * s = 1 ->
  forall l, gamma_interp RO (sum_from RO (fun _ (r : amn_row) => cabs2 RO (cadd RO (fst r) (snd r))) l rows)
                         (sum_from RO (fun _ (r : amn_row) => cabs2 RO (csub RO (fst r) (snd r))) l rows)
                         (sum_from RO (fun _ (r : amn_row) => cabs2 RO (cadd RO (fst r) (cmul RO (0, 1) (snd r)))) l rows)
                         (c * c - s * s) (2 * s * c)
            = sum_from RO (fun _ r => sos_term c s r) l rows.
Proof.
  intros H. induction rows as [|r rows IH]; intros l; cbn [sum_from].
  - ur. field.
  - cbn [add RO]. rewrite gamma_interp_add, IH, gamma_term_sos by exact H. reflexivity.
Qed.

Lemma sos_sum_nonneg c s rows : forall l, 0 <= sum_from RO (fun _ r => sos_term c s r) l rows.
Proof.
  induction rows as [|r rows IH]; intros l; cbn [sum_from zero add RO]; [lra|].
  pose proof (IH (l + 1)%Z). unfold sos_term at 1. pose proof (cabs2_nonneg (csub RO (cscale RO c (cadd RO (fst r) (snd r)))
                    (cmul RO (0, 1) (cscale RO s (csub RO (fst r) (snd r)))))). lra.
Qed.

Lemma ms_cscat_sos pi k rows c s : c * c + s * s = 1 ->
  ms_cscat RO pi k rows (c * c - s * s) (2 * s * c) =
  sum_from RO (fun _ r => sos_term c s r) 0 rows * 4 * pi / (k * k).
Proof.
  intros H. unfold ms_cscat, q_0, q_pi2, q_pi4. cbn [zero one RO]. rewrite (gamma_sos c s rows H 0%Z).
  generalize (sum_from RO (fun (_ : Z) (r : amn_row) => sos_term c s r) 0 rows). intros X. ur. unfold Rdiv. ring.
Qed.

Lemma ms_cscat_nonneg pi k rows c s : 0 < pi -> k <> 0 -> c * c + s * s = 1 ->
  0 <= ms_cscat RO pi k rows (c * c - s * s) (2 * s * c).
Proof.
  intros Hp Hk H. rewrite ms_cscat_sos by exact H. pose proof (sos_sum_nonneg c s rows 0%Z).
  pose proof (pref_pos pi k Hp Hk). unfold Rdiv.
  replace (sum_from RO (fun _ r => sos_term c s r) 0 rows * 4 * pi * / (k * k))
    with (sum_from RO (fun _ r => sos_term c s r) 0 rows * 2 * (2 * pi * / (k * k))) by ring.
  nra.
Qed.

(** * wavevector and unit scaling *)
Lemma k_def pi nmed lam : lam <> 0 -> nmed <> 0 -> wavevec RO pi nmed lam = 2 * pi * nmed / lam.
Proof. intros. ur. field. auto. Qed.
Lemma k_scaling pi nmed lam s : lam <> 0 -> nmed <> 0 -> s <> 0 ->
  wavevec RO pi nmed (s * lam) = wavevec RO pi nmed lam / s.
Proof. intros. ur. field. auto. Qed.
Lemma size_par_scaling pi nmed lam r s : lam <> 0 -> nmed <> 0 -> s <> 0 ->
  size_par RO (wavevec RO pi nmed (s * lam)) (s * r) = size_par RO (wavevec RO pi nmed lam) r.
Proof. intros. ur. field. auto. Qed.
Lemma cross_sections_scaling pi k s cs : k <> 0 -> s <> 0 ->
  x_scat (mie_raw_cross_sections RO pi (k / s) cs) = s * s * x_scat (mie_raw_cross_sections RO pi k cs) /\
  x_abs (mie_raw_cross_sections RO pi (k / s) cs) = s * s * x_abs (mie_raw_cross_sections RO pi k cs) /\
  x_ext (mie_raw_cross_sections RO pi (k / s) cs) = s * s * x_ext (mie_raw_cross_sections RO pi k cs).
Proof.
  intros Hk Hs. unfold x_scat, x_abs, x_ext, mie_raw_cross_sections.
  generalize (cscat_sum RO cs) (cext_sum RO cs). intros A B. ur. repeat split; field; auto.
Qed.
Lemma asym_scaling pi k s cs : k <> 0 -> s <> 0 -> pi <> 0 -> cscat_sum RO cs <> 0 ->
  x_asym (mie_raw_cross_sections RO pi (k / s) cs) = x_asym (mie_raw_cross_sections RO pi k cs).
Proof.
  intros Hk Hs Hp Hc. unfold x_asym, mie_raw_cross_sections.
  generalize dependent (cscat_sum RO cs). generalize (asym_sum RO cs). intros G A HA.
  cbn [zero one add mul sub opp inv ofZ RO four two]. field. repeat split; auto.
Qed.

(** * the executed Q instance computes the same sums as the R instance the theorems are about *)
Definition cQ2R (z : cx (T:=Q)) : cxR := (Q2R (fst z), Q2R (snd z)).
Definition coefQ2R (c : coef (T:=Q)) : coefR := (cQ2R (fst c), cQ2R (snd c)).
Lemma Q2R_Qred q : Q2R (Qred q) = Q2R q.
Proof. apply Qeq_eqR, Qred_correct. Qed.
Ltac q2r' := cbn [zero one add mul sub opp inv ofZ RO QOr fst snd];
             repeat (rewrite ?Q2R_Qred, ?Q2R_plus, ?Q2R_mult, ?Q2R_minus, ?Q2R_opp, ?Q2R_inject_Z).

Lemma cscat_term_Q_R l c : Q2R (cscat_term QOr l c) = cscat_term RO l (coefQ2R c).
Proof.
  destruct c as [[ar ai] [br bi]]. unfold cscat_term, coefQ2R, cQ2R, cabs2, iz, re, im. q2r'. reflexivity.
Qed.
Lemma cext_term_Q_R l c : Q2R (cext_term QOr l c) = cext_term RO l (coefQ2R c).
Proof.
  destruct c as [[ar ai] [br bi]]. unfold cext_term, coefQ2R, cQ2R, cadd, iz, re, im. q2r'. reflexivity.
Qed.
Lemma sum_from_Q_R (fq : Z -> coef (T:=Q) -> Q) (fr : Z -> coefR -> R) :
  (forall l c, Q2R (fq l c) = fr l (coefQ2R c)) ->
  forall cs l, Q2R (sum_from QOr fq l cs) = sum_from RO fr l (map coefQ2R cs).
Proof.
  intros H. induction cs as [|c cs IH]; intros l; cbn [sum_from map].
  - cbn. apply Q2R_0.
  - q2r'. rewrite H, IH. reflexivity.
Qed.
Lemma sums_Q_R cs :
  Q2R (cscat_sum QOr cs) = cscat_sum RO (map coefQ2R cs) /\
  Q2R (cext_sum QOr cs) = cext_sum RO (map coefQ2R cs).
Proof.
  unfold cscat_sum, cext_sum. split; apply sum_from_Q_R; [apply cscat_term_Q_R|apply cext_term_Q_R].
Qed.

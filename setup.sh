#!/bin/bash
# MANIFEST.setup_cmd: offline build of the Coq development (full .vo build) and of the
# out-of-tree Fortran solver cache for /repo's current tree.
set -e
HERE="$(cd "$(dirname "$0")" && pwd)"
cd "$HERE"
# gate: no axioms / admits / disabled checks anywhere in the development
if grep -rnE '\b(Admitted|admit|Axiom|Parameter|Conjecture|Unset Guard|bypass_check|Admit Obligations)\b' coq --include='*.v' --include='*.v.in' | grep -v '^\s*(\*' ; then
  echo "forbidden construct in coq/" >&2; exit 2
fi
cd coq
rm -f .vfiles
coq_makefile -f _CoqProject -o Makefile $(find . -name "*.v" | sed "s|^\./||" | sort) > /dev/null
timeout 3000 make -j16 2>&1 | grep -v '^COQDEP\|^COQC\|^CAMLDEP' | grep -iE 'error|warning: .*admit' -A8 || true
# every file must have compiled
for f in $(find . -name '*.v'); do [ -f "${f%.v}.vo" ] || { echo "not compiled: $f" >&2; exit 3; }; done
cd "$HERE"
PYTHONPATH="$HERE:/repo" /venv/bin/python -W ignore harness/lib/boot.py 2>&1 | grep -v condarc | tail -2
echo "setup ok"

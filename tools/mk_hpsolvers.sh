#!/bin/bash
# Builds /tmp/hpsolvers: a neutral helper for sub-agents and seeded demos (NOT part of any registered check):
#   inject.py    loads the compiled Fortran solvers for the tree given as sys.argv[1] (or $HOLOPY_REPO, default /repo)
#                into sys.modules; they are (re)built out of tree from that tree's Fortran sources, cached by content
#   baseline.py  runs the pinned baseline in a given tree and reports how many of the 400 stable tests pass
set -e
HERE="$(cd "$(dirname "$0")/.." && pwd)"
D=/tmp/hpsolvers
mkdir -p $D/lib
cp "$HERE/harness/lib/boot.py" $D/lib/boot.py
touch $D/lib/__init__.py
cp "$HERE/tools/baseline.py" $D/baseline.py
cat > $D/inject.py <<'PY'
"""import inject  ->  compiled solvers of the tree under test are in sys.modules.
The tree is sys.argv[1] if it is a directory, else $HOLOPY_REPO, else /repo.  Build output: /tmp/hpsolvers/build."""
import os, sys
_tree = None
if len(sys.argv) > 1 and os.path.isdir(sys.argv[1]):
    _tree = sys.argv[1]
_tree = _tree or os.environ.get("HOLOPY_REPO", "/repo")
os.environ["HOLOPY_REPO"] = _tree
sys.path.insert(0, os.path.dirname(os.path.abspath(__file__)))
from lib import boot as _boot
_boot.REPO = _tree
_boot.VERIF = os.path.dirname(os.path.abspath(__file__))
_boot.BUILD = os.path.join(_boot.VERIF, "build")
_boot.inject(_boot.build_all())
PY
cd $D && /venv/bin/python -W ignore -c "import sys; sys.argv=['x','/repo']; import inject; sys.path.insert(0,'/repo'); import holopy; from holopy.scattering.theory import Mie; print('hpsolvers ok')"

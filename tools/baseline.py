#!/venv/bin/python
"""Runs the pinned baseline (guard off) and checks that every stable_pass test passes."""
import json, subprocess, sys, xml.etree.ElementTree as ET, os, tempfile
b = json.load(open("/root/.vp/BASELINE.json"))
out = tempfile.mktemp(suffix=".xml", dir="/tmp")
cmd = b["cmd"].replace("<file>", out).replace("cd /repo", "cd " + (sys.argv[1] if len(sys.argv) > 1 else "/repo"))
env = dict(os.environ); env.pop("PYTHONPATH", None); env.pop("HOLOPY_VERIF", None)
subprocess.run(cmd, shell=True, stdout=subprocess.DEVNULL, stderr=subprocess.DEVNULL, env=env)
passed = set()
for tc in ET.parse(out).getroot().iter("testcase"):
    if not any(c.tag in ("failure", "error", "skipped") for c in tc):
        passed.add(tc.get("classname") + "::" + tc.get("name"))
os.remove(out)
missing = [t for t in b["stable_pass"] if t not in passed]
print("baseline: %d/%d stable tests pass; %d passed in total" % (len(b["stable_pass"]) - len(missing), len(b["stable_pass"]), len(passed)))
for m in missing[:20]:
    print("  MISSING", m)
sys.exit(1 if missing else 0)

#!/venv/bin/python
"""Regenerates MANIFEST.json from the table below (one entry per claimed property)."""
import json, os, sys
HERE = os.path.dirname(os.path.dirname(os.path.abspath(__file__)))
BASE = json.load(open("/root/.vp/BASELINE.json"))["cmd"]
TRUST = ("Coq 8.16.1 kernel + vm_compute (no native_compute, no extraction); hand-written Gallina model tied to /repo "
         "by a differential correspondence check that evaluates the model inside coqc on the inputs the implementation "
         "ran (sound on sampled inputs only); stdlib real-number axioms as listed by Print Assumptions in the evidence; "
         "harness (generators, float->Q conversion, out-of-tree gfortran build of the f2py solvers). ")
CLAIMS = json.load(open(os.path.join(HERE, "tools", "claims.json")))
NOT_YET = {}
def main():
    props = [json.loads(l) for l in open(os.path.join(HERE, "properties.jsonl"))]
    checks, na = [], []
    for p in props:
        pid = p["id"]
        if pid in CLAIMS:
            c = CLAIMS[pid]
            checks.append({
                "property_id": pid,
                "quick_cmd": "./check %s --tier quick" % pid,
                "thorough_cmd": "./check %s --tier thorough" % pid,
                "evidence_file": "/verif/evidence/%s.json" % pid,
                "replay_cmd_template": "./check %s --replay {path}" % pid,
                "engine": "coq-proof+correspondence",
                "level_claimed": {"category": "proof", "text": c["text"], "design_ref": "DESIGN.md section 6, " + pid},
                "level_note": TRUST + c["note"],
                "technique": c["technique"],
            })
        else:
            na.append({"property_id": pid, "reason": NOT_YET.get(pid, "check not built yet in this session (model planned in DESIGN.md section 6); not claimed until its check runs green")})
    m = {
        "version": 1,
        "setup_cmd": "./setup.sh",
        "hooks": {"guard": "HOLOPY_VERIF", "enable": "no source hooks: the compiled solvers are built out of tree (build/ext) and injected through sys.modules by harness/lib/boot.py; observation is through public entry points",
                  "baseline_off_cmd": BASE.replace("--junitxml=<file>", "--junitxml=/tmp/holopy_baseline.junit.xml"),
                  "source_commits": [], "add_only": True},
        "engines": [{"name": "coq-proof+correspondence", "path": "/verif/check",
                     "serves_properties": sorted(CLAIMS), "kind_free_text": "Coq 8.16 theorems about a Gallina model (coq/Cxx) + differential correspondence harness (harness/props/cxx.py) running the model in coqc against /repo's working tree"}],
        "checks": checks,
        "notes": "See DESIGN.md. KNOWN_FINDINGS.json lists fixed and known defects.",
        "not_applicable": na,
    }
    json.dump(m, open(os.path.join(HERE, "MANIFEST.json"), "w"), indent=1)
    print("claimed:", sorted(CLAIMS), "not claimed:", [x["property_id"] for x in na])
if __name__ == "__main__":
    main()

#!/venv/bin/python
"""Regenerates the generated tables of DESIGN.md (between <!-- BEGIN x --> / <!-- END x --> markers) from
evidence/*.json, seeded/*/meta.json and KNOWN_FINDINGS.json."""
import json, os, glob, re
HERE = os.path.dirname(os.path.dirname(os.path.abspath(__file__)))

def state_table():
    claims = json.load(open(os.path.join(HERE, "tools", "claims.json")))
    rows = ["| property | claimed | obligations discharged (Props.v theorems + source-tie lemmas) | axioms used | correspondence cases (quick) | explored (quick) | quick wall s |",
            "|---|---|---|---|---|---|---|"]
    for i in range(1, 21):
        pid = "C%02d" % i
        ev = os.path.join(HERE, "evidence", pid + ".json")
        if not os.path.exists(ev):
            rows.append("| %s | %s | - | - | - | - | - |" % (pid, "yes" if pid in claims else "no"))
            continue
        e = json.load(open(ev)); c = e["coverage"]
        axs = sorted({a.split(".")[-1] for l in c.get("axioms_per_theorem", {}).values() for a in l})
        rows.append("| %s | %s | %d/%d | %s | %s | %s | %s |" % (
            pid, "yes" if pid in claims else "no", c.get("discharged", 0), c.get("obligations", 0),
            ", ".join(axs) or "none", c.get("correspondence_cases", "-"), c.get("explored_cases", "-"), e.get("wall_s")))
    return "\n".join(rows)

def seeded_table():
    rows = ["| id | property | what the change does | needs to manifest | caught (quick) | by (violation keys) |", "|---|---|---|---|---|---|"]
    for d in sorted(glob.glob(os.path.join(HERE, "seeded", "*"))):
        mp = os.path.join(d, "meta.json")
        if not os.path.exists(mp):
            continue
        m = json.load(open(mp))
        runs = m.get("check_runs", [])
        det = any(r.get("detected") for r in runs)
        keys = sorted({k for r in runs for k in r.get("keys", [])})
        def cut(t, n):
            t = re.sub(r"\s+", " ", str(t)).replace("|", "/")
            return t if len(t) <= n else t[:n - 1] + "…"
        rows.append("| %s | %s | %s | %s | %s | %s |" % (os.path.basename(d), m.get("property"), cut(m.get("summary", ""), 260),
                    cut(m.get("needs_to_manifest", ""), 200), "yes" if det else ("NO" if runs else "not run"),
                    cut(", ".join(keys[:6]) + (" …" if len(keys) > 6 else ""), 160)))
    return "\n".join(rows)

def findings_table():
    k = json.load(open(os.path.join(HERE, "KNOWN_FINDINGS.json")))["findings"]
    rows = ["| property | key | status | commit | what failed |", "|---|---|---|---|---|"]
    for f in k:
        what = re.sub(r"^fixed: property=\S+ \S+ ", "", f["what"]).replace("|", "/")
        rows.append("| %s | `%s` | %s | %s | %s |" % (f["property"], f["key"], f["status"], f.get("commit", "-"), what))
    return "\n".join(rows)

def main():
    p = os.path.join(HERE, "DESIGN.md")
    s = open(p).read()
    for name, fn in (("STATE", state_table), ("SEEDED", seeded_table), ("FINDINGS", findings_table)):
        b, e = "<!-- BEGIN %s -->" % name, "<!-- END %s -->" % name
        if b in s:
            s = s[:s.index(b) + len(b)] + "\n" + fn() + "\n" + s[s.index(e):]
    open(p, "w").write(s)

if __name__ == "__main__":
    main()

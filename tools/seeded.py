#!/venv/bin/python
"""Run the checks against a seeded change.

  tools/seeded.py run seeded/<id> [--tier quick] [--inplace]   apply patch (scratch worktree by default, or /repo in place
                                                               with --inplace, undone afterwards), run demo + ./check, record
  tools/seeded.py confirm <dir>                                confirm a candidate (patch applies, baseline ok, demo fails with /
                                                               passes without) in a scratch worktree
  tools/seeded.py all [--tier quick]                           run every seeded/<id>
"""
import json
import os
import re
import shutil
import subprocess
import sys
import tempfile
import time

HERE = os.path.dirname(os.path.dirname(os.path.abspath(__file__)))


def sh(cmd, **kw):
    return subprocess.run(cmd, shell=True, stdout=subprocess.PIPE, stderr=subprocess.STDOUT, text=True, **kw)


def worktree():
    d = tempfile.mkdtemp(prefix="seedwt-", dir="/tmp")
    os.rmdir(d)
    r = sh("git -C /repo worktree add --detach %s HEAD -q" % d)
    if r.returncode:
        raise RuntimeError(r.stdout)
    return d


def rm_worktree(d):
    sh("git -C /repo worktree remove --force %s" % d)
    shutil.rmtree(d, ignore_errors=True)
    sh("git -C /repo worktree prune")


def run_demo(sdir, tree):
    demo = os.path.join(sdir, "demo.py")
    env = dict(os.environ, HOLOPY_REPO=tree, PYTHONHASHSEED="0", MPLBACKEND="Agg")
    r = subprocess.run(["/venv/bin/python", "-W", "ignore", demo, tree], stdout=subprocess.PIPE,
                       stderr=subprocess.STDOUT, text=True, env=env, timeout=1800)
    return r.returncode, r.stdout[-1500:]


def confirm(sdir):
    wt = worktree()
    res = {}
    try:
        rc0, out0 = run_demo(sdir, wt)
        res["demo_clean_rc"] = rc0
        r = sh("git -C %s apply %s" % (wt, os.path.join(sdir, "patch.diff")))
        res["applies"] = r.returncode == 0
        if r.returncode:
            res["apply_err"] = r.stdout[-500:]
            return res
        rc1, out1 = run_demo(sdir, wt)
        res["demo_mutant_rc"] = rc1
        res["demo_mutant_out"] = out1[-400:]
        b = sh("/venv/bin/python %s/tools/baseline.py %s" % (HERE, wt))
        res["baseline"] = b.stdout.strip().split("\n")[0]
        res["ok"] = (rc0 == 0 and rc1 != 0 and "400/400" in b.stdout)
    finally:
        rm_worktree(wt)
    return res


def run(sdir, tier="quick", inplace=False):
    meta = json.load(open(os.path.join(sdir, "meta.json")))
    pid = meta["property"]
    patch = os.path.abspath(os.path.join(sdir, "patch.diff"))
    if inplace:
        tree = "/repo"
        r = sh("git -C /repo apply %s" % patch)
    else:
        tree = worktree()
        r = sh("git -C %s apply %s" % (tree, patch))
    out = {"tier": tier, "at": time.strftime("%Y-%m-%dT%H:%M:%S"), "inplace": inplace}
    try:
        if r.returncode:
            out["error"] = "patch does not apply: " + r.stdout[-300:]
            return out
        t = time.time()
        c = sh("HOLOPY_REPO=%s %s/check %s --tier %s" % (tree, HERE, pid, tier), cwd=HERE)
        out["check_rc"] = c.returncode
        out["wall_s"] = round(time.time() - t, 1)
        out["violation_lines"] = [l for l in c.stdout.split("\n") if l.startswith("VIOLATION") or l.startswith("  # ")][:12]
        out["detected"] = c.returncode == 1 and any(l.startswith("VIOLATION") for l in c.stdout.split("\n"))
        keys = []
        for l in c.stdout.split("\n"):
            m = re.match(r"VIOLATION property=\S+ replay=(\S+)", l)
            if m and os.path.exists(m.group(1)):
                keys.append(json.load(open(m.group(1)))["key"])
        out["keys"] = keys
    finally:
        if inplace:
            sh("git -C /repo checkout -- .")
        else:
            rm_worktree(tree)
            # the run against a scratch tree left its evidence / replays / model evaluations under build/alt/<hash of the path>
            import hashlib
            shutil.rmtree(os.path.join(HERE, "build", "alt", hashlib.sha1(tree.encode()).hexdigest()[:10]), ignore_errors=True)
    meta.setdefault("check_runs", [])
    meta["check_runs"] = [x for x in meta["check_runs"] if x.get("tier") != tier] + [out]
    meta["detected"] = any(x.get("detected") for x in meta["check_runs"])
    json.dump(meta, open(os.path.join(sdir, "meta.json"), "w"), indent=1)
    return out


if __name__ == "__main__":
    cmd = sys.argv[1]
    tier = "quick"
    if "--tier" in sys.argv:
        tier = sys.argv[sys.argv.index("--tier") + 1]
    if cmd == "confirm":
        print(json.dumps(confirm(sys.argv[2]), indent=1))
    elif cmd == "run":
        print(json.dumps(run(sys.argv[2], tier, "--inplace" in sys.argv), indent=1))
    elif cmd == "all":
        base = os.path.join(HERE, "seeded")
        for d in sorted(os.listdir(base)):
            p = os.path.join(base, d)
            if os.path.exists(os.path.join(p, "meta.json")):
                o = run(p, tier)
                print(d, "detected" if o.get("detected") else "MISSED", o.get("keys"), o.get("wall_s"))
